"""C48 the numba-compiled kernels compile from the current sources and agree with their interpreted definitions.

Two processes evaluate the same Hypothesis-generated list of calls: worker A with the JIT enabled and a numba cache
directory keyed on a hash of the whole source tree, the calling shard process itself (B) with ``NUMBA_DISABLE_JIT=1``.
The parent compares the encoded results.  The module doubles as the worker (``python -m vf.props.c48_... --worker``).
"""

from __future__ import annotations

import hashlib
import inspect
import json
import math
import os
import pathlib
import shutil
import subprocess
import sys
import time

import numpy as np

from vf.core import PY, REPO, VERIF, CaseResult, HarnessError

ID = "C48"
LEVEL = "exploration"
ENGINE = "E"
TECHNIQUE = (
    "differential between two processes on one seeded call list: numba-compiled (fresh-per-tree cache) vs the same "
    "functions interpreted (NUMBA_DISABLE_JIT=1); compile / typing errors are violations"
)
RULE = (
    "Function groups (one compiled worker process each): interpolation+Mellin path (evaluate_grid / evaluate_x / "
    "log_evaluate_x on dispatcher areas, Talbot/line/edge paths, the Path jitclass), couplings (expanded solutions incl. "
    "coupled QCDxQED), scale variations (expanded QCD/QED ns/singlet/valence, exponentiated gamma variations), harmonics "
    "(every cache key x is_singlet, polygamma orders 0-4, g- and log-functions), QCD kernels (non-singlet and singlet "
    "dispatchers: 8 methods x orders 1-4, plus every evolution integral and the individual solution kernels), QED kernels "
    "(non-singlet / singlet / valence dispatchers on the (1-4)x(1-2) grid, running and fixed alpha_em), every function of "
    "the unpolarised space-like anomalous-dimension modules as1/as2 and matching modules as1/as2 (found by introspection, "
    "arguments by parameter name); thorough tier adds quad_ker_ad / quad_ker_ome on random (u, label, configuration) and a "
    "tiny end-to-end solve.  Inputs: N on the solver's Talbot contours (eko.mellin.Path) and off-contour (box Re N in [-6,40], "
    "|Im N| <= 40, at least 0.75 away from the poles at the integers <= 1; the contours keep >= 0.9), couplings "
    "log-uniform in [0.002,0.05], random complex gamma towers |gamma_k| <= 10^(k+1), jittered log grids.  Oracle: same "
    "structure and shape; integers / booleans identical; floats within 1e-12 of the largest modulus of the same array; an "
    "exception on one side only, a numba compile/typing error, or a crash of the compiled worker is a violation.  "
    "Non-trivial = both sides returned a floating-point result (not an agreed refusal); distinct by (function, arguments)."
)
ASSUMPTIONS = [
    "tolerance 1e-12 relative to the largest modulus within the returned array, with a floor of 1 on that scale for the "
    "groups whose quantities are O(1) by construction (Lagrange basis polynomials - a partition of unity -, harmonic sums, "
    "as1/as2 anomalous dimensions and matching elements, evolution kernels around the identity); pure relative for "
    "couplings and scale variations.  Compiled and interpreted code differ by libm / complex-power / contraction "
    "rounding only: measured worst 2.1e-13 (mellin_g18), 5.6e-14 (A_hg), <= 1e-14 elsewhere, couplings and scale "
    "variations bitwise equal",
    "numba cache directory /verif/.build/nb/<sha256 over path+content of every file under $VERIF_REPO/src except "
    "__pycache__>: numba does not invalidate cached machine code when a callee in another file changes, so the cache is "
    "keyed on the tree; an unchanged tree reuses its cache (the first run after any source change compiles from scratch)",
    "arguments are passed in the types production passes them (order tuples of ints, ndarray towers, Python lists for "
    "beta vectors - numba 'reflected lists')",
    "quad_ker_ad / quad_ker_ome and the end-to-end solve (9 min cold compile each) are exercised in the thorough tier only; "
    "their tolerance is 1e-10 relative to max(|value|, peak modulus of the Mellin-inversion factor QuadKerBase.integrand along "
    "the contour) - the solver integrates the kernel over the contour, and in its tail the values are cancellation "
    "residues (observed 4.5e-9 relative noise on a factor 3e-17 below its peak); the factor itself is compared at 1e-12 "
    "of its peak; solve: 1e-10 of max(1, largest operator entry) since the kernels pass through adaptive quadrature",
]
LEVEL_TEXT = (
    "Generated-input differential between the compiled and the interpreted execution of the same sources, covering every "
    "njit function of the anchored modules through public entry points or direct calls; samples inputs, does not exhaust."
)

TOL = 1e-12
# natural magnitude of the quantities of a group, used as a floor of the comparison scale where small outputs arise from
# cancellations between O(1) terms (a Lagrange basis polynomial at a foreign node, harmonic-sum combinations at large N)
SCALE_FLOOR = {"interpolation": 1.0, "harmonics": 1.0, "ad_as12": 1.0, "ome_as12": 1.0, "qcd_kernels": 1.0, "qed_kernels": 1.0,
               "solve": 1.0}
# The integration kernels return Re(Mellin-inversion factor x kernel element) at one point u of the contour.  What the
# solver uses is the integral over u, so the natural scale is the PEAK of the factor along the contour (u = 0.5..0.7);
# in the tail the factor and the kernel are cancellation residues many orders below it.  The callers therefore also
# return the factor and its peak (QuadKerBase.integrand); the kernel value is compared to 1e-10 of max(|value|, peak)
# (the kernel element's own magnitude, O(1)..O(100), is not visible from outside), the factor to 1e-12 of the peak.
# The end-to-end solve passes these values through adaptive quadrature.
TOL_GROUP = {"quad_ker_ad": 1e-10, "quad_ker_ome": 1e-10, "solve": 1e-10}
QUICK_GROUPS = ("qcd_kernels", "ome_as12", "ad_as12", "qed_kernels", "harmonics", "scale_variations", "couplings", "interpolation")
THOROUGH_GROUPS = ("quad_ker_ad", "quad_ker_ome", "solve") + QUICK_GROUPS
N_CASES = {"quick": 200, "thorough": 1500}
N_CASES_SLOW = {"quad_ker_ad": 300, "quad_ker_ome": 300, "solve": 2}


def groups(tier):
    return QUICK_GROUPS if tier == "quick" else THOROUGH_GROUPS


def budget(tier):
    if tier == "quick":
        return dict(custom_shards=len(QUICK_GROUPS), wall_s=240, shrink_s=0)
    return dict(custom_shards=len(THOROUGH_GROUPS), wall_s=2400, shrink_s=0)


# =========================================================================================== numba cache per tree


def tree_hash():
    src = REPO / "src"
    h = hashlib.sha256()
    for p in sorted(src.rglob("*")):
        if not p.is_file() or "__pycache__" in p.parts or p.suffix in (".pyc", ".pyo", ".nbi", ".nbc"):
            continue
        h.update(str(p.relative_to(src)).encode() + b"\0")
        h.update(hashlib.sha256(p.read_bytes()).digest())
    return h.hexdigest()


def cache_dir():
    """Tree-keyed numba cache directory; stale directories of other trees are removed to bound disk use."""
    root = VERIF / ".build" / "nb"
    root.mkdir(parents=True, exist_ok=True)
    mine = root / tree_hash()[:32]
    mine.mkdir(exist_ok=True)
    now = time.time()
    os.utime(mine, (now, now))
    others = sorted((d for d in root.iterdir() if d.is_dir() and d != mine), key=lambda d: d.stat().st_mtime, reverse=True)
    for rank, d in enumerate(others):
        age = now - d.stat().st_mtime
        # another run (e.g. a scratch-tree run in parallel) may be using a recent directory: keep the two most recently
        # used for an hour, everything else goes
        if age > 3600 or (rank >= 2 and age > 600):
            shutil.rmtree(d, ignore_errors=True)
    return mine


# =========================================================================================== encoding / comparison


def encode(x):
    """Canonical JSON form of a result."""
    if isinstance(x, (bool, np.bool_)):
        return {"k": "b", "v": bool(x)}
    if isinstance(x, (int, np.integer)):
        return {"k": "i", "v": int(x)}
    if isinstance(x, (float, np.floating)):
        return {"k": "f", "shape": [], "v": [float(x), 0.0]}
    if isinstance(x, (complex, np.complexfloating)):
        return {"k": "f", "shape": [], "v": [float(x.real), float(x.imag)]}
    if isinstance(x, np.ndarray):
        if x.dtype.kind in "iub":
            return {"k": "ia", "shape": list(x.shape), "v": [int(v) for v in x.ravel()]}
        z = np.asarray(x, dtype=np.complex128).ravel()
        return {"k": "f", "shape": list(x.shape), "v": [float(v) for pair in zip(z.real, z.imag) for v in pair]}
    if isinstance(x, (tuple, list)):
        return {"k": "t", "v": [encode(v) for v in x]}
    if x is None:
        return {"k": "none"}
    raise HarnessError(f"cannot encode result of type {type(x)}")


def _num(e):
    """Numeric view of an encoded leaf: (shape, complex array) or None."""
    if e["k"] == "f":
        v = np.array(e["v"], dtype=float)
        return tuple(e["shape"]), v[0::2] + 1j * v[1::2]
    if e["k"] in ("i", "b"):
        return (), np.array([complex(e["v"])])
    if e["k"] == "ia":
        return tuple(e["shape"]), np.array(e["v"], dtype=complex)
    return None


def compare(a, b, path="result", floor=0.0, tol=TOL):
    """List of (kind, message) differences between two encoded results (a compiled, b interpreted)."""
    if a["k"] == "t" or b["k"] == "t":
        if a["k"] != b["k"] or len(a["v"]) != len(b["v"]):
            return [("structure", f"{path}: compiled {a['k']} of {len(a.get('v', []))} vs interpreted {b['k']} of {len(b.get('v', []))}")]
        out = []
        for i, (x, y) in enumerate(zip(a["v"], b["v"])):
            out += compare(x, y, f"{path}[{i}]", floor, tol)
        return out
    if a["k"] == "none" or b["k"] == "none":
        return [] if a["k"] == b["k"] else [("structure", f"{path}: compiled {a['k']} vs interpreted {b['k']}")]
    na, nb_ = _num(a), _num(b)
    if na[0] != nb_[0]:
        return [("shape", f"{path}: compiled shape {na[0]} vs interpreted shape {nb_[0]}")]
    exact = a["k"] in ("i", "b", "ia") and b["k"] in ("i", "b", "ia")
    x, y = na[1], nb_[1]
    if exact:
        if not np.array_equal(x, y):
            i = int(np.argmax(x != y))
            return [("integer", f"{path}: integer/boolean output differs at flat index {i}: compiled {x[i].real:g} vs interpreted {y[i].real:g}")]
        return []
    nan_a, nan_b = np.isnan(x.real) | np.isnan(x.imag), np.isnan(y.real) | np.isnan(y.imag)
    if not np.array_equal(nan_a, nan_b):
        i = int(np.argmax(nan_a != nan_b))
        return [("nan", f"{path}: NaN on one side only at flat index {i}: compiled {x[i]!r} vs interpreted {y[i]!r}")]
    ok = ~nan_a
    inf = ok & ~(np.isfinite(x.real) & np.isfinite(x.imag) & np.isfinite(y.real) & np.isfinite(y.imag))
    if inf.any():
        if not np.array_equal(x[inf], y[inf]):
            i = int(np.argmax(inf))
            return [("inf", f"{path}: non-finite values differ: compiled {x[i]!r} vs interpreted {y[i]!r}")]
        ok = ok & ~inf
    if not ok.any():
        return []
    scale = max(float(np.max(np.abs(x[ok]))), float(np.max(np.abs(y[ok]))), floor, 1e-300)
    dev = np.where(ok, np.abs(np.where(ok, x, 0) - np.where(ok, y, 0)), 0.0)
    if dev.max() > tol * scale:
        i = int(np.argmax(dev))
        return [(
            "value",
            f"{path}: flat index {i}: compiled {x[i]!r} vs interpreted {y[i]!r}, |diff| {dev[i]:.3e} = "
            f"{dev[i] / scale:.3e} of the array scale {scale:.3e} (tolerance {tol:g})",
        )]
    return []


def is_float_result(e):
    if e["k"] == "t":
        return any(is_float_result(v) for v in e["v"])
    return e["k"] == "f"


# =========================================================================================== shared strategies


def c(z):
    return complex(z[0], z[1])


def _st():
    from hypothesis import strategies as st

    return st


def unit():
    """Uniform values in (0,1): a numpy Generator seeded by a Hypothesis-drawn integer (Hypothesis' own float and integer
    strategies over-sample 0 and the end points, which would put half of the moments on the real axis)."""
    st = _st()
    return st.integers(0, 2**32 - 1).map(lambda s: float(np.random.default_rng(s).uniform(1e-9, 1 - 1e-9)))


def st_n(singlet=None):
    """Mellin moment [re, im]: solver contours (t in [0.5,0.95]) or a box, >= 0.75 away from the integers <= 1."""
    st = _st()
    from eko import mellin

    def contour(u, v, s):
        n = complex(mellin.Path(0.5 + 0.45 * u, math.log(1e-7) * v, s).n)
        return [n.real, n.imag]

    def box(re, frac, im):
        if re < 1.5 and abs(im) < 0.75:
            # keep >= 0.75 away from the poles at the integers <= 1 (the solver's contours stay >= 0.9 away): the closed
            # forms carry prefactors up to 1/(N+k)^6, so rounding is amplified by d^-6 near a pole (observed 1.6e-12 for
            # lm15m1 at d = 0.6, 4e-12 for A_hg at d = 0.1) although the two executions agree operation by operation
            im = math.copysign(0.75 + abs(im), im if im != 0.0 else 1.0)
        return [re, im]

    sing = st.booleans() if singlet is None else st.just(bool(singlet))
    return st.one_of(
        st.builds(contour, unit(), unit(), sing),
        st.builds(contour, unit(), unit(), sing),
        st.builds(box, unit().map(lambda u: 0.3 + 39.7 * u), unit(), unit().map(lambda u: -40 + 80 * u)),
        st.builds(box, unit().map(lambda u: -6 + 7.2 * u), unit(), st.one_of(unit().map(lambda u: -6 + 12 * u), st.just(0.0))),
    )


def st_cdisc(rmax):
    st = _st()
    return st.builds(lambda r, ph: [r * rmax * math.cos(ph), r * rmax * math.sin(ph)], unit(), unit().map(lambda u: 2 * math.pi * u))


def st_coupling(lo=0.002, hi=0.05):
    return unit().map(lambda u: lo * (hi / lo) ** u)


def st_apair():
    """(a1, a0) with |ln(a1/a0)| >= 0.05."""
    st = _st()

    def mk(a, u, up):
        b = a * math.exp((0.05 + 2.5 * u) * (1 if up else -1))
        b = min(max(b, 0.001), 0.08)
        return [a, b] if abs(math.log(b / a)) >= 0.05 else [a, a * 1.2]

    return st.builds(mk, st_coupling(0.004, 0.03), unit(), st.booleans())


def st_gamma_vec(n):
    st = _st()
    return st.tuples(*[st_cdisc(10.0 ** (k + 1)) for k in range(n)]).map(list)


def st_gamma_mat(n, dim):
    st = _st()
    return st.tuples(
        *[st.lists(st.lists(st_cdisc(10.0 ** (k + 1)), min_size=dim, max_size=dim), min_size=dim, max_size=dim) for k in range(n)]
    ).map(list)


def st_gamma_grid(o0, o1, dim=None):
    """(o0+1, o1+1[, dim, dim]) tower with the (0,0) slot zero and |gamma_ij| <= 10^(i+j)."""
    st = _st()
    rows = []
    for i in range(o0 + 1):
        row = []
        for j in range(o1 + 1):
            mag = 0.0 if i == j == 0 else 10.0 ** (i + j)
            if dim is None:
                row.append(st_cdisc(mag))
            else:
                row.append(st.lists(st.lists(st_cdisc(mag), min_size=dim, max_size=dim), min_size=dim, max_size=dim))
        rows.append(st.tuples(*row).map(list))
    return st.tuples(*rows).map(list)


def carr(x):
    """Nested [re, im] lists -> complex ndarray."""
    a = np.array(x, dtype=float)
    return np.ascontiguousarray(a[..., 0] + 1j * a[..., 1])


# =========================================================================================== groups: strategies + callers
# A case is {"group": g, "fn": name, "args": {...}}.  CALLERS[g](fn, args) performs the repo call(s) and returns the raw
# result; it runs in both modes.


def _beta_list(nf, n):
    from eko import beta

    return [beta.beta_qcd((2 + i, 0), nf) for i in range(n)]


# ------------------------------------------------------------------------------------------- QCD kernels

NS_DIRECT = {
    "lo_exact": 1, "nlo_exact": 2, "nlo_expanded": 2, "nnlo_exact": 3, "nnlo_expanded": 3, "n3lo_exact": 4, "n3lo_expanded": 4,
}
S_DIRECT_BETA = {
    "lo_exact": 1, "nlo_decompose_exact": 2, "nlo_decompose_expanded": 2, "nnlo_decompose_exact": 3, "nnlo_decompose_expanded": 3,
}
EI_FUNCS = {  # name -> (needs b_vec, minimal length of b_vec)
    "j12": (False, 0), "j23_exact": (True, 2), "j23_expanded": (False, 0), "j13_exact": (True, 2), "j13_expanded": (True, 2),
    "j34_exact": (True, 3), "j24_exact": (True, 3), "j14_exact": (True, 3), "j34_expanded": (False, 0),
    "j24_expanded": (True, 3), "j14_expanded": (True, 3),
}


def strat_qcd_kernels(tier):
    st = _st()

    @st.composite
    def ns_disp(draw):
        o = draw(st.sampled_from((1, 2, 3, 4, 4)))
        return {"fn": "ns.dispatcher", "args": {
            "order": [o, 0], "method": draw(st.integers(1, 8)), "gamma": draw(st_gamma_vec(o)), "a": draw(st_apair()),
            "nf": draw(st.integers(3, 6))}}

    @st.composite
    def s_disp(draw):
        o = draw(st.sampled_from((1, 2, 3, 4, 4)))
        return {"fn": "s.dispatcher", "args": {
            "order": [o, 0], "method": draw(st.integers(1, 8)), "gamma": draw(st_gamma_mat(o, 2)), "a": draw(st_apair()),
            "nf": draw(st.integers(3, 6)), "iters": draw(st.integers(1, 4)), "max_order": [draw(st.integers(o, o + 4)), 0]}}

    @st.composite
    def ns_direct(draw):
        name = draw(st.sampled_from(sorted(NS_DIRECT) + ["eko_ordered_truncated", "eko_truncated", "U_vec"]))
        o = NS_DIRECT.get(name) or draw(st.integers(2, 4))
        return {"fn": "ns." + name, "args": {
            "order": [o, 0], "gamma": draw(st_gamma_vec(o)), "a": draw(st_apair()), "nf": draw(st.integers(3, 6))}}

    @st.composite
    def s_direct(draw):
        name = draw(st.sampled_from(
            sorted(S_DIRECT_BETA) + ["n3lo_decompose_exact", "n3lo_decompose_expanded", "eko_iterate", "eko_perturbative", "eko_truncated"]
        ))
        o = S_DIRECT_BETA.get(name) or (4 if name.startswith("n3lo") else draw(st.integers(2, 4)))
        return {"fn": "s." + name, "args": {
            "order": [o, 0], "gamma": draw(st_gamma_mat(o, 2)), "a": draw(st_apair()), "nf": draw(st.integers(3, 6)),
            "iters": draw(st.integers(1, 4)), "max_order": [draw(st.integers(o, o + 4)), 0], "exact": draw(st.booleans())}}

    @st.composite
    def ei(draw):
        name = draw(st.sampled_from(sorted(EI_FUNCS)))
        return {"fn": "ei." + name, "args": {"a": draw(st_apair()), "nf": draw(st.integers(3, 6))}}

    @st.composite
    def ei4(draw):
        name = draw(st.sampled_from(("roots", "derivative", "j33_exact", "j23_exact", "j13_exact", "j03_exact", "j33_expanded",
                                     "j23_expanded", "j13_expanded", "j03_expanded")))
        return {"fn": "ei4." + name, "args": {"a": draw(st_apair()), "nf": draw(st.integers(3, 6)), "r": draw(st_cdisc(5.0))}}

    return st.one_of(ns_disp(), ns_disp(), s_disp(), s_disp(), s_disp(), ns_direct(), s_direct(), ei(), ei4())


def call_qcd_kernels(fn, a):
    from eko import beta
    from eko.kernels import as4_evolution_integrals as ei4
    from eko.kernels import evolution_integrals as ei
    from eko.kernels import non_singlet as ns
    from eko.kernels import singlet as s

    mod, name = fn.split(".")
    nf = int(a["nf"])
    a1, a0 = float(a["a"][0]), float(a["a"][1])
    if mod in ("ns", "s"):
        order = (int(a["order"][0]), int(a["order"][1]))
        gamma = carr(a["gamma"])
        if name == "dispatcher":
            if mod == "ns":
                return ns.dispatcher(order, int(a["method"]), gamma, a1, a0, nf)
            return s.dispatcher(order, int(a["method"]), gamma, a1, a0, nf, int(a["iters"]), (int(a["max_order"][0]), 0))
        bl = _beta_list(nf, order[0])
        if mod == "ns":
            if name == "U_vec":
                return ns.U_vec(gamma, bl, order)
            if name in ("eko_ordered_truncated", "eko_truncated"):
                return getattr(ns, name)(gamma, a1, a0, bl, order)
            return getattr(ns, name)(gamma, a1, a0, bl)
        if name in S_DIRECT_BETA:
            return getattr(s, name)(gamma, a1, a0, bl)
        if name.startswith("n3lo"):
            return getattr(s, name)(gamma, a1, a0, nf)
        if name == "eko_iterate":
            return s.eko_iterate(gamma, a1, a0, bl, order, int(a["iters"]))
        if name == "eko_perturbative":
            return s.eko_perturbative(gamma, a1, a0, bl, order, int(a["iters"]), (int(a["max_order"][0]), 0), bool(a["exact"]))
        return s.eko_truncated(gamma, a1, a0, bl, order)
    beta0 = beta.beta_qcd((2, 0), nf)
    if mod == "ei":
        needs, ln = EI_FUNCS[name]
        if not needs:
            return getattr(ei, name)(a1, a0, beta0)
        b_vec = [beta.b_qcd((2 + i, 0), nf) for i in range(ln)]
        return getattr(ei, name)(a1, a0, beta0, b_vec)
    b_list = [beta.b_qcd((3 + i, 0), nf) for i in range(3)]  # [b1, b2, b3]
    if name == "roots":
        return ei4.roots(b_list)
    if name == "derivative":
        return ei4.derivative(c(a["r"]), b_list)
    if name.endswith("_exact") and name != "j03_exact":
        return getattr(ei4, name)(a1, a0, beta0, b_list, ei4.roots(b_list))
    if name == "j33_expanded":
        return ei4.j33_expanded(a1, a0, beta0)
    if name in ("j23_expanded", "j13_expanded"):
        return getattr(ei4, name)(a1, a0, beta0, b_list)
    # j03_*: (j12, j13, j23, j33, b_list)
    j12 = ei.j12(a1, a0, beta0)
    if name == "j03_exact":
        r = ei4.roots(b_list)
        return ei4.j03_exact(j12, ei4.j13_exact(a1, a0, beta0, b_list, r), ei4.j23_exact(a1, a0, beta0, b_list, r),
                             ei4.j33_exact(a1, a0, beta0, b_list, r), b_list)
    return ei4.j03_expanded(j12, ei4.j13_expanded(a1, a0, beta0, b_list), ei4.j23_expanded(a1, a0, beta0, b_list),
                            ei4.j33_expanded(a1, a0, beta0), b_list)


# ------------------------------------------------------------------------------------------- QED kernels


def strat_qed_kernels(tier):
    st = _st()

    @st.composite
    def disp(draw):
        which = draw(st.sampled_from(("ns", "ns", "singlet", "valence")))
        o0, o1 = draw(st.integers(1, 4)), draw(st.integers(1, 2))
        steps = draw(st.integers(1, 4))
        a1, a0 = draw(st_apair())
        fr = sorted(draw(st.lists(unit(), min_size=steps - 1, max_size=steps - 1)))
        as_list = [a0 * (a1 / a0) ** f for f in [0.0] + fr + [1.0]]
        aem = draw(st_coupling(1e-4, 5e-3))
        running = draw(st.booleans())
        a_half = []
        for k in range(steps):
            a_half.append([math.sqrt(as_list[k] * as_list[k + 1]), aem * (1 + 0.01 * k if running else 1.0)])
        dim = {"ns": None, "singlet": 4, "valence": 2}[which]
        mu = sorted([draw(unit().map(lambda u: 10.0 ** (4 * u))), draw(unit().map(lambda u: 10.0 ** (4 * u)))])
        return {"fn": which + "_qed.dispatcher", "args": {
            "order": [o0, o1], "gamma": draw(st_gamma_grid(o0, o1, dim)), "as_list": as_list, "a_half": a_half,
            "running": running, "nf": draw(st.integers(3, 6)), "steps": steps, "mu2": [mu[0], mu[1] * 1.01],
            "method": draw(st.sampled_from((1, 1, 1, 2, 5)))}}

    @st.composite
    def fixed(draw):
        o0, o1 = draw(st.integers(1, 4)), draw(st.integers(1, 2))
        return {"fn": "ns_qed.fixed_alphaem_exact", "args": {
            "order": [o0, o1], "gamma": draw(st_gamma_grid(o0, o1)), "a": draw(st_apair()), "aem": draw(st_coupling(1e-4, 5e-3)),
            "nf": draw(st.integers(3, 6)), "mu2": [draw(unit().map(lambda u: 10.0 ** (4 * u))), draw(unit().map(lambda u: 10.0 ** (4 * u)))]}}

    return st.one_of(disp(), disp(), disp(), disp(), fixed())


def call_qed_kernels(fn, a):
    from eko.kernels import non_singlet_qed as qns
    from eko.kernels import singlet_qed as qs
    from eko.kernels import valence_qed as qv

    order = (int(a["order"][0]), int(a["order"][1]))
    gamma = carr(a["gamma"])
    nf = int(a["nf"])
    if fn == "ns_qed.fixed_alphaem_exact":
        return qns.fixed_alphaem_exact(order, gamma, float(a["a"][0]), float(a["a"][1]), float(a["aem"]), nf,
                                       float(a["mu2"][0]), float(a["mu2"][1]))
    as_list = np.array(a["as_list"], dtype=float)
    a_half = np.array(a["a_half"], dtype=float)
    steps = int(a["steps"])
    if fn == "ns_qed.dispatcher":
        return qns.dispatcher(order, int(a["method"]), gamma, as_list, a_half[:, 1].copy(), bool(a["running"]), nf, steps,
                              float(a["mu2"][0]), float(a["mu2"][1]))
    mod = qs if fn.startswith("singlet") else qv
    return mod.dispatcher(order, int(a["method"]), gamma, as_list, a_half, nf, steps, (10, 0))


# ------------------------------------------------------------------------------------------- interpolation + Mellin


def strat_interpolation(tier):
    st = _st()

    @st.composite
    def grid(draw):
        npts = draw(st.integers(3, 9))
        xmin = 10.0 ** (-1 - 5 * draw(unit()))
        jit = [draw(unit()) for _ in range(npts)]
        lg = [math.log(xmin) * (1 - (i + 0.3 * (jit[i] - 0.5) * (0 < i < npts - 1)) / (npts - 1)) for i in range(npts)]
        xs = [math.exp(v) for v in lg]
        xs[-1] = 1.0
        deg = draw(st.integers(1, min(4, npts - 1)))
        return {"xgrid": xs, "deg": deg, "log": draw(st.booleans()), "j": draw(st.integers(0, npts - 1))}

    @st.composite
    def evaln(draw):
        g = draw(grid())
        g.update({"n": draw(st_n()), "logx": math.log(1e-6) * draw(unit())})
        return {"fn": "interpolation.evaluate_grid", "args": g}

    @st.composite
    def evalx(draw):
        g = draw(grid())
        lo = g["xgrid"][0]
        g["x"] = draw(st.one_of(unit().map(lambda u: lo * (1.0 / lo) ** u), st.sampled_from(g["xgrid"])))
        return {"fn": "interpolation.evaluate_x", "args": g}

    @st.composite
    def path(draw):
        name = draw(st.sampled_from(("Talbot_path", "Talbot_jac", "line_path", "line_jac", "edge_path", "edge_jac", "Path", "Path")))
        return {"fn": "mellin." + name, "args": {
            "t": draw(st.one_of(unit(), st.just(0.5))), "r": 0.1 + 60 * draw(unit()), "o": draw(st.sampled_from((0.0, 1.0))),
            "m": 0.1 + 10 * draw(unit()), "c": 0.5 + 2 * draw(unit()), "phi": 0.3 + 2.5 * draw(unit()),
            "logx": math.log(1e-7) * draw(unit()), "singlet": draw(st.booleans())}}

    return st.one_of(evaln(), evaln(), evalx(), path())


def call_interpolation(fn, a):
    from eko import interpolation, mellin

    if fn.startswith("mellin."):
        name = fn.split(".")[1]
        t = float(a["t"])
        if name in ("Talbot_path", "Talbot_jac"):
            return getattr(mellin, name)(t, float(a["r"]), float(a["o"]))
        if name in ("line_path", "line_jac"):
            return getattr(mellin, name)(t, float(a["m"]), float(a["c"]))
        if name in ("edge_path", "edge_jac"):
            return getattr(mellin, name)(t, float(a["m"]), float(a["c"]), float(a["phi"]))
        p = mellin.Path(t, float(a["logx"]), bool(a["singlet"]))
        return (p.n, p.jac, p.prefactor, p.r, p.o)
    disp = interpolation.InterpolatorDispatcher(interpolation.XGrid(np.array(a["xgrid"]), log=bool(a["log"])), int(a["deg"]), True)
    areas = disp[int(a["j"])].areas_representation
    if fn == "interpolation.evaluate_grid":
        return interpolation.evaluate_grid(c(a["n"]), bool(a["log"]), float(a["logx"]), areas)
    x = float(a["x"])
    if a["log"]:
        return interpolation.log_evaluate_x(x, areas)
    return interpolation.evaluate_x(x, areas)


# ------------------------------------------------------------------------------------------- couplings


def strat_couplings(tier):
    st = _st()

    @st.composite
    def one(draw):
        name = draw(st.sampled_from((
            "exact_lo", "expanded_nlo", "expanded_nnlo", "expanded_n3lo", "expanded_qcd", "expanded_qed",
            "couplings_expanded_alphaem_running", "couplings_expanded_alphaem_running", "couplings_expanded_fixed_alphaem",
        )))
        return {"fn": "couplings." + name, "args": {
            "ref": draw(st_coupling(0.005, 0.04)), "aem": draw(st_coupling(3e-4, 1e-3)), "nf": draw(st.integers(3, 6)),
            "nl": draw(st.integers(0, 3)), "order": [draw(st.integers(1, 4)), draw(st.integers(0, 2))],
            "lmu": -3 + 9 * draw(unit()), "decoupled": draw(st.booleans())}}

    return one()


def call_couplings(fn, a):
    from eko import beta, couplings

    name = fn.split(".")[1]
    nf, nl = int(a["nf"]), int(a["nl"])
    order = (int(a["order"][0]), int(a["order"][1]))
    ref, lmu = float(a["ref"]), float(a["lmu"])
    if lmu < 0:  # keep the evolved coupling perturbative when running downwards
        lmu = max(lmu, -0.8 / (beta.beta_qcd((2, 0), nf) * ref) * 0.6)
    b0 = beta.beta_qcd((2, 0), nf)
    b = [beta.b_qcd((2 + i, 0), nf) for i in range(4)]
    if name == "exact_lo":
        return couplings.exact_lo(ref, b0, lmu)
    if name == "expanded_nlo":
        return couplings.expanded_nlo(ref, b0, b[1], lmu)
    if name == "expanded_nnlo":
        return couplings.expanded_nnlo(ref, b0, b[1], b[2], lmu)
    if name == "expanded_n3lo":
        return couplings.expanded_n3lo(ref, b0, b[1], b[2], b[3], lmu)
    if name == "expanded_qcd":
        return couplings.expanded_qcd(ref, order[0], b0, b, lmu)
    if name == "expanded_qed":
        bq = [beta.b_qed((0, 2 + i), nf, nl) for i in range(2)]
        return couplings.expanded_qed(float(a["aem"]), max(order[1], 1), beta.beta_qed((0, 2), nf, nl), bq, lmu)
    ref2 = np.array([ref, float(a["aem"])])
    if name == "couplings_expanded_alphaem_running":
        return couplings.couplings_expanded_alphaem_running(order, ref2, nf, nl, 10.0, 10.0 * math.exp(lmu), bool(a["decoupled"]))
    return couplings.couplings_expanded_fixed_alphaem(order, ref2, nf, 10.0, 10.0 * math.exp(lmu))


# ------------------------------------------------------------------------------------------- scale variations


def strat_scale_variations(tier):
    st = _st()

    @st.composite
    def one(draw):
        name = draw(st.sampled_from((
            "expanded.non_singlet_variation", "expanded.singlet_variation", "expanded.non_singlet_variation_qed",
            "expanded.singlet_variation_qed", "expanded.valence_variation_qed", "exponentiated.gamma_variation:ns",
            "exponentiated.gamma_variation:s", "exponentiated.gamma_variation_qed:ns", "exponentiated.gamma_variation_qed:s",
            "exponentiated.gamma_variation_qed:v",
        )))
        qed = "qed" in name
        o0 = draw(st.integers(1, 4))
        o1 = draw(st.integers(1, 2)) if qed else 0
        kind = "ns" if ("non_singlet" in name or name.endswith(":ns")) else ("v" if ("valence" in name or name.endswith(":v")) else "s")
        dim = {"ns": None, "s": 4 if qed else 2, "v": 2}[kind]
        if qed:
            gamma = draw(st_gamma_grid(o0, o1, dim))
        else:
            gamma = draw(st_gamma_vec(o0) if dim is None else st_gamma_mat(o0, dim))
        return {"fn": "sv." + name, "args": {
            "order": [o0, o1], "gamma": gamma, "a_s": draw(st_coupling()), "a_em": draw(st_coupling(3e-4, 1e-3)),
            "nf": draw(st.integers(3, 6)), "nl": draw(st.integers(2, 3)), "L": -2.8 + 5.6 * draw(unit()),
            "running": draw(st.booleans()), "dim": dim or 1}}

    return one()


def call_scale_variations(fn, a):
    from eko.scale_variations import expanded, exponentiated

    name = fn[3:]
    order = (int(a["order"][0]), int(a["order"][1]))
    gamma = carr(a["gamma"])
    nf, L, a_s, a_em = int(a["nf"]), float(a["L"]), float(a["a_s"]), float(a["a_em"])
    run = bool(a["running"])
    if name == "expanded.non_singlet_variation":
        return expanded.non_singlet_variation(gamma, a_s, order, nf, L)
    if name == "expanded.singlet_variation":
        return expanded.singlet_variation(gamma, a_s, order, nf, L, int(a["dim"]))
    if name == "expanded.non_singlet_variation_qed":
        return expanded.non_singlet_variation_qed(gamma, a_s, a_em, run, order, nf, L)
    if name == "expanded.singlet_variation_qed":
        return expanded.singlet_variation_qed(gamma, a_s, a_em, run, order, nf, L)
    if name == "expanded.valence_variation_qed":
        return expanded.valence_variation_qed(gamma, a_s, a_em, run, order, nf, L)
    if name.startswith("exponentiated.gamma_variation_qed"):
        return exponentiated.gamma_variation_qed(gamma, order, nf, int(a["nl"]), L, run)
    return exponentiated.gamma_variation(gamma, order, nf, L)


# ------------------------------------------------------------------------------------------- harmonics

CACHE_KEYS = (
    "S1", "S2", "S3", "S4", "S5", "Sm1", "Sm2", "Sm3", "Sm4", "Sm5", "S21", "S2m1", "Sm21", "Sm2m1", "S31", "Sm31", "Sm22",
    "S211", "Sm211", "S1h", "S2h", "S3h", "S1mh", "S2mh", "S3mh", "S1ph", "S2ph", "S3ph", "g3", "S1p2", "g3p2",
)


def harmonic_function_names():
    """Direct entry points of g_functions / log_functions found by introspection (name, number of S arguments)."""
    from ekore.harmonics import g_functions, log_functions

    out = []
    for mod, tag in ((g_functions, "g"), (log_functions, "lm")):
        for k, v in sorted(vars(mod).items()):
            f = getattr(v, "py_func", v)
            if inspect.isfunction(f) and f.__module__ == mod.__name__:
                out.append((f"{tag}.{k}", len(inspect.signature(f).parameters) - 1))
    return out


def cache_key_names():
    from ekore.harmonics import cache

    names = [k for k, v in vars(cache).items() if isinstance(v, int) and not isinstance(v, bool) and not k.startswith("_")
             and k != "CACHE_SIZE"]
    return sorted(set(names) | set(CACHE_KEYS))


def strat_harmonics(tier):
    st = _st()
    keys = cache_key_names()
    direct = harmonic_function_names()

    @st.composite
    def one(draw):
        kind = draw(st.sampled_from(("cache", "cache", "cache", "direct", "direct", "polygamma", "rhs", "symmetry", "reuse")))
        args = {"n": draw(st_n()), "singlet": draw(st.booleans())}
        if kind == "cache":
            return {"fn": "cache.get:" + draw(st.sampled_from(keys)), "args": args}
        if kind == "reuse":
            args["keys"] = draw(st.lists(st.sampled_from(keys), min_size=2, max_size=6))
            return {"fn": "cache.get:sequence", "args": args}
        if kind == "direct":
            name, ns = draw(st.sampled_from(direct))
            args["nS"] = ns
            return {"fn": name, "args": args}
        if kind == "polygamma":
            args["K"] = draw(st.integers(0, 4))
            return {"fn": "polygamma.cern_polygamma", "args": args}
        if kind == "rhs":
            args.update({"base": draw(st_cdisc(5.0)), "iterations": draw(st.integers(0, 4)), "weight": draw(st.integers(1, 5))})
            return {"fn": "polygamma.recursive_harmonic_sum", "args": args}
        return {"fn": "polygamma.symmetry_factor", "args": args}

    return one()


def call_harmonics(fn, a):
    from ekore import harmonics as h
    from ekore.harmonics import cache, g_functions, log_functions, polygamma

    n = c(a["n"])
    sing = bool(a["singlet"])
    if fn == "cache.get:sequence":
        cc = cache.reset()
        return [cache.get(getattr(cache, k), cc, n, sing) for k in a["keys"]] + [cc.copy()]
    if fn.startswith("cache.get:"):
        cc = cache.reset()
        v = cache.get(getattr(cache, fn.split(":")[1]), cc, n, sing)
        return (v, cc.copy())
    if fn == "polygamma.cern_polygamma":
        return polygamma.cern_polygamma(n, int(a["K"]))
    if fn == "polygamma.recursive_harmonic_sum":
        return polygamma.recursive_harmonic_sum(c(a["base"]), n, int(a["iterations"]), int(a["weight"]))
    if fn == "polygamma.symmetry_factor":
        return polygamma.symmetry_factor(n, sing)
    tag, name = fn.split(".")
    f = getattr(g_functions if tag == "g" else log_functions, name)
    S = [h.S1(n), h.S2(n), h.S3(n), h.S4(n), h.S5(n)][: int(a["nS"])]
    return f(n, *S)


# ------------------------------------------------------------------------------------------- ekore as1/as2 by introspection

EKORE_MODULES = {
    "ad_as12": ("ekore.anomalous_dimensions.unpolarized.space_like.as1", "ekore.anomalous_dimensions.unpolarized.space_like.as2"),
    "ome_as12": ("ekore.operator_matrix_elements.unpolarized.space_like.as1", "ekore.operator_matrix_elements.unpolarized.space_like.as2"),
}
KNOWN_PARAMS = {"N", "n", "nf", "_nf", "cache", "L", "is_msbar"}


def ekore_functions(group):
    """[(qualified name, parameter names)] of every function defined in the group's modules."""
    import importlib

    out = []
    for mname in EKORE_MODULES[group]:
        mod = importlib.import_module(mname)
        for k, v in sorted(vars(mod).items()):
            f = getattr(v, "py_func", v)
            if inspect.isfunction(f) and f.__module__ == mname:
                params = list(inspect.signature(f).parameters)
                unknown = [p for p in params if p not in KNOWN_PARAMS]
                if unknown:
                    raise HarnessError(f"{mname}.{k} has parameters {unknown} the C48 generator does not know")
                out.append((f"{mname}:{k}", params))
    return out


def strat_ekore(group):
    def make(tier):
        st = _st()
        funcs = ekore_functions(group)

        @st.composite
        def one(draw):
            name, params = draw(st.sampled_from(funcs))
            singlet_like = any(s in name for s in ("singlet", "_gg", "_qg", "_gq", "_ps", "_hg", "_hq", "_gh", "_hh"))
            return {"fn": name, "args": {
                "params": params, "n": draw(st_n(singlet_like or None)), "nf": draw(st.integers(3, 6)),
                "L": draw(st.one_of(unit().map(lambda u: -3 + 6 * u), st.just(0.0))), "is_msbar": draw(st.booleans())}}

        return one()

    return make


def call_ekore(fn, a):
    import importlib

    from ekore.harmonics import cache

    mname, name = fn.split(":")
    f = getattr(importlib.import_module(mname), name)
    vals = {"N": c(a["n"]), "n": c(a["n"]), "nf": int(a["nf"]), "_nf": int(a["nf"]), "cache": cache.reset(), "L": float(a["L"]),
            "is_msbar": bool(a["is_msbar"])}
    return f(*[vals[p] for p in a["params"]])


# ------------------------------------------------------------------------------------------- thorough: quad_ker, solve

AD_LABELS_QCD = ((100, 100), (100, 21), (21, 100), (21, 21), (10200, 10200), (10101, 10101), (10201, 10201))
AD_LABELS_QED = ((21, 21), (21, 22), (22, 100), (100, 101), (101, 101), (10200, 10200), (10200, 10204), (10204, 10204),
                 (10102, 10102), (10103, 10103), (10202, 10202), (10203, 10203))
OME_LABELS = ((100, 100), (100, 21), (21, 100), (21, 21), (90, 21), (90, 100), (100, 90), (21, 90), (90, 90), (200, 200),
              (200, 91), (91, 200), (91, 91))


def _grid_args(draw, st):
    npts = draw(st.integers(3, 7))
    xmin = 10.0 ** (-1 - 4 * draw(unit()))
    xs = [math.exp(math.log(xmin) * (1 - i / (npts - 1))) for i in range(npts)]
    xs[-1] = 1.0
    j = draw(st.integers(0, npts - 1))
    # the integrand vanishes identically when x lies above the support of basis function j: mostly pick x_k <= x_j
    k = draw(st.one_of(st.integers(0, min(j, npts - 2)), st.integers(0, min(j, npts - 2)), st.integers(0, npts - 2)))
    return {"xgrid": xs, "deg": draw(st.integers(1, min(3, npts - 1))), "log": draw(st.booleans()), "j": j, "k": k}


def strat_quad_ker_ad(tier):
    st = _st()

    @st.composite
    def one(draw):
        qed = draw(st.sampled_from((0, 0, 1, 2)))
        pol = draw(st.sampled_from((False, False, False, True))) if not qed else False
        tl = draw(st.sampled_from((False, False, False, True))) if not (qed or pol) else False
        o0 = draw(st.integers(1, 3 if (pol or tl) else 4))
        steps = draw(st.integers(1, 3))
        a1, a0 = draw(st_apair())
        as_list = [a0 * (a1 / a0) ** (i / steps) for i in range(steps + 1)]
        aem = draw(st_coupling(3e-4, 1e-3))
        g = _grid_args(draw, st)
        g.update({
            "u": 0.5 + 0.45 * draw(unit()), "order": [o0, qed],
            "label": list(draw(st.sampled_from(AD_LABELS_QED if qed else AD_LABELS_QCD))),
            "method": 1 if qed else draw(st.integers(1, 8)), "as_list": as_list,
            "a_half": [[math.sqrt(as_list[i] * as_list[i + 1]), aem] for i in range(steps)], "running": draw(st.booleans()),
            "nf": draw(st.integers(3, 5)), "L": -1.5 + 3 * draw(unit()), "steps": steps, "max_order": [o0 + draw(st.integers(0, 3)), 0],
            "sv": draw(st.sampled_from((1, 1, 2, 3))), "threshold": draw(st.booleans()),
            "var": [draw(st.integers(0, 2)) for _ in range(7)], "pol": pol, "tl": tl, "fhmruvv": draw(st.sampled_from((True, True, False))),
            "mu2": [10.0, 10.0 * math.exp(3 * draw(unit()))],
        })
        return {"fn": "quad_ker.quad_ker_ad", "args": g}

    return one()


def strat_quad_ker_ome(tier):
    st = _st()

    @st.composite
    def one(draw):
        pol = draw(st.sampled_from((False, False, False, True)))
        tl = draw(st.sampled_from((False, False, False, True))) if not pol else False
        o0 = draw(st.integers(1, 1 if tl else (2 if pol else 3)))
        g = _grid_args(draw, st)
        g.update({
            "u": 0.5 + 0.45 * draw(unit()), "order": [o0, 0], "label": list(draw(st.sampled_from(OME_LABELS))),
            "a_s": draw(st_coupling()), "nf": draw(st.integers(3, 5)), "L": -1.5 + 3 * draw(unit()), "sv": draw(st.sampled_from((1, 1, 2, 3))),
            "Lsv": -1.0 + 2 * draw(unit()), "backward": draw(st.sampled_from((1, 1, 2, 3))), "msbar": draw(st.booleans()),
            "pol": pol, "tl": tl,
        })
        return {"fn": "quad_ker.quad_ker_ome", "args": g}

    return one()


def _mellin_factor(quad_ker, vals, logx, areas):
    """(Mellin-inversion factor at u, its peak modulus along the contour) from the QuadKerBase jitclass."""
    factor = complex(quad_ker.QuadKerBase(vals["u"], vals["is_log"], logx, vals["mode0"]).integrand(areas))
    peak = max(
        abs(complex(quad_ker.QuadKerBase(u0, vals["is_log"], logx, vals["mode0"]).integrand(areas))) for u0 in (0.5, 0.6, 0.7)
    )
    return factor, float(peak)


def call_quad_ker(fn, a):
    import importlib

    from eko import interpolation

    # `eko.evolution_operator.quad_ker` as an attribute is shadowed by the function imported in the package __init__
    quad_ker = importlib.import_module("eko.evolution_operator.quad_ker")

    disp = interpolation.InterpolatorDispatcher(interpolation.XGrid(np.array(a["xgrid"]), log=bool(a["log"])), int(a["deg"]), True)
    areas = disp[int(a["j"])].areas_representation
    logx = math.log(a["xgrid"][int(a["k"])])
    order = (int(a["order"][0]), int(a["order"][1]))
    if fn.endswith("quad_ker_ad"):
        params = list(inspect.signature(getattr(quad_ker.quad_ker_ad, "py_func", quad_ker.quad_ker_ad)).parameters)
        vals = dict(
            u=float(a["u"]), order=order, mode0=int(a["label"][0]), mode1=int(a["label"][1]), ev_method=int(a["method"]),
            is_log=bool(a["log"]), logx=logx, areas=areas, as_list=np.array(a["as_list"], dtype=float),
            mu2_from=float(a["mu2"][0]), mu2_to=float(a["mu2"][1]), a_half=np.array(a["a_half"], dtype=float),
            alphaem_running=bool(a["running"]), nf=int(a["nf"]), L=float(a["L"]), ev_op_iterations=int(a["steps"]),
            ev_op_max_order=(int(a["max_order"][0]), 0), sv_mode=int(a["sv"]), is_threshold=bool(a["threshold"]),
            n3lo_ad_variation=tuple(int(v) for v in a["var"]), is_polarized=bool(a["pol"]), is_time_like=bool(a["tl"]),
            use_fhmruvv=bool(a["fhmruvv"]),
        )
        vals["Lsv"] = vals["L"]
        factor, peak = _mellin_factor(quad_ker, vals, logx, areas)
        return (quad_ker.quad_ker_ad(*[vals[p] for p in params]), factor, peak)
    params = list(inspect.signature(getattr(quad_ker.quad_ker_ome, "py_func", quad_ker.quad_ker_ome)).parameters)
    vals = dict(
        u=float(a["u"]), order=order, mode0=int(a["label"][0]), mode1=int(a["label"][1]), is_log=bool(a["log"]), logx=logx,
        areas=areas, a_s=float(a["a_s"]), nf=int(a["nf"]), L=float(a["L"]), sv_mode=int(a["sv"]), Lsv=float(a["Lsv"]),
        backward_method=int(a["backward"]), is_msbar=bool(a["msbar"]), is_polarized=bool(a["pol"]), is_time_like=bool(a["tl"]),
    )
    factor, peak = _mellin_factor(quad_ker, vals, logx, areas)
    return (quad_ker.quad_ker_ome(*[vals[p] for p in params]), factor, peak)


def strat_solve(tier):
    st = _st()
    return st.sampled_from((
        {"fn": "solve", "args": {"order": [2, 0], "method": "iterate-exact"}},
        {"fn": "solve", "args": {"order": [3, 0], "method": "truncated"}},
    ))


def call_solve(fn, a):
    from vf import runner_util as ru

    case = ru.full({"order": list(a["order"]), "method": a["method"]}) if hasattr(ru, "full") else None
    if case is None:
        raise HarnessError("runner_util.full is required for the end-to-end part of C48")
    ops = ru.solve(case)
    return [[list(k)[:2], op, err] for k, (op, err) in sorted(ops.items(), key=lambda kv: tuple(kv[0]))]


STRATEGIES = {
    "qcd_kernels": strat_qcd_kernels, "qed_kernels": strat_qed_kernels, "interpolation": strat_interpolation,
    "couplings": strat_couplings, "scale_variations": strat_scale_variations, "harmonics": strat_harmonics,
    "ad_as12": strat_ekore("ad_as12"), "ome_as12": strat_ekore("ome_as12"), "quad_ker_ad": strat_quad_ker_ad,
    "quad_ker_ome": strat_quad_ker_ome, "solve": strat_solve,
}
CALLERS = {
    "qcd_kernels": call_qcd_kernels, "qed_kernels": call_qed_kernels, "interpolation": call_interpolation,
    "couplings": call_couplings, "scale_variations": call_scale_variations, "harmonics": call_harmonics,
    "ad_as12": call_ekore, "ome_as12": call_ekore, "quad_ker_ad": call_quad_ker, "quad_ker_ome": call_quad_ker,
    "solve": call_solve,
}


# =========================================================================================== evaluation in one mode


def evaluate(case):
    """Run one case in the current process; returns {"ok": encoded} or {"exc": ...}."""
    import numba

    try:
        raw = CALLERS[case["group"]](case["fn"], case["args"])
    except HarnessError:
        raise
    except Exception as e:  # noqa: BLE001 - outcome of the code under test, compared between the two modes
        import traceback

        # Interpreted: an exception whose traceback never enters the tree under test comes from this file (argument
        # preparation) and is a harness bug -> propagate (exit 2).  Compiled code leaves no Python frames, so in JIT mode
        # every exception is an outcome; a harness bug would already have surfaced in the interpreted evaluation of the
        # same case.
        tb = traceback.extract_tb(e.__traceback__)
        in_harness_only = all("/vf/" in fr.filename for fr in tb)
        is_numba = isinstance(e, numba.core.errors.NumbaError)
        if in_harness_only and not is_numba and numba.config.DISABLE_JIT:
            raise
        return {"exc": type(e).__name__, "numba": bool(is_numba), "msg": str(e)[:1500]}
    return {"ok": encode(raw)}


def worker_main(argv):
    """`--worker cases.json out.jsonl`: evaluate the cases in this process' numba mode, one JSON line per event."""
    from vf import core

    core.setup_paths()
    core.assert_tree()
    import numba

    cases = json.loads(pathlib.Path(argv[0]).read_text())
    t0 = time.time()
    with open(argv[1], "w") as out:
        out.write(json.dumps({"hello": True, "jit_disabled": bool(numba.config.DISABLE_JIT), "cache_dir": numba.config.CACHE_DIR}) + "\n")
        out.flush()
        for i, case in enumerate(cases):
            out.write(json.dumps({"start": i}) + "\n")
            out.flush()
            t1 = time.time()
            r = evaluate(case)
            r["i"] = i
            r["dt"] = round(time.time() - t1, 3)
            out.write(json.dumps(r) + "\n")
            out.flush()
        out.write(json.dumps({"done": len(cases), "wall": round(time.time() - t0, 1)}) + "\n")


def spawn_compiled(cases, tag):
    """Start worker A (JIT on, tree-keyed cache) on the cases; returns (Popen, out path, log path)."""
    tmp = pathlib.Path(os.environ.get("TMPDIR") or (VERIF / ".work"))
    tmp.mkdir(parents=True, exist_ok=True)
    stem = f"c48-{tag}-{os.getpid()}-{int(time.time() * 1000) % 10**9}"
    cfile, ofile, lfile = tmp / f"{stem}.cases.json", tmp / f"{stem}.out.jsonl", tmp / f"{stem}.log"
    cfile.write_text(json.dumps(cases))
    env = dict(os.environ)
    env["NUMBA_DISABLE_JIT"] = "0"
    env["NUMBA_CACHE_DIR"] = str(cache_dir())
    env["VERIF_REPO"] = str(REPO)
    env["PYTHONPATH"] = os.pathsep.join([str(VERIF), str(VERIF / ".deps"), env.get("PYTHONPATH", "")]).rstrip(os.pathsep)
    env["PYTHONDONTWRITEBYTECODE"] = "1"
    env["PYTHONWARNINGS"] = "ignore"
    p = subprocess.Popen(
        [PY, "-m", "vf.props.c48_compiled_vs_interpreted", "--worker", str(cfile), str(ofile)],
        cwd=str(VERIF), env=env, stdout=open(lfile, "w"), stderr=subprocess.STDOUT,
    )
    return p, ofile, lfile


def read_worker(p, ofile, lfile, ncases, timeout):
    """Wait for worker A; returns (results by index, crashed index or None, log tail)."""
    try:
        rc = p.wait(timeout=timeout)
    except subprocess.TimeoutExpired:
        p.kill()
        p.wait()
        raise HarnessError(f"compiled worker exceeded {timeout}s (inconclusive: compile time, not a verdict)\n" + _tail(lfile))
    res, started, hello = {}, None, None
    if ofile.exists():
        for line in ofile.read_text().splitlines():
            try:
                d = json.loads(line)
            except json.JSONDecodeError:
                continue
            if "hello" in d:
                hello = d
            elif "start" in d:
                started = d["start"]
            elif "i" in d:
                res[d["i"]] = d
    if hello is None:
        raise HarnessError(f"compiled worker did not start (rc={rc})\n" + _tail(lfile))
    if hello["jit_disabled"]:
        raise HarnessError("worker A ran with the JIT disabled")
    crashed = None
    if len(res) < ncases:
        if started is not None and started not in res and rc != 0 and (rc < 0 or rc in (134, 139)):
            crashed = started  # killed by a signal while executing compiled code of this case
        else:
            raise HarnessError(f"compiled worker stopped early rc={rc} after {len(res)}/{ncases} cases\n" + _tail(lfile))
    return res, crashed, _tail(lfile)


def _tail(path, n=2500):
    try:
        return pathlib.Path(path).read_text()[-n:]
    except OSError:
        return ""


def judge(case, ra, rb):
    """CaseResult from the compiled (ra) and interpreted (rb) outcome of one case."""
    g, fn = case["group"], case["fn"]
    res = CaseResult(key=case)
    res.classes = [f"group={g}", f"fn={fn.split(':')[0] if g in ('ad_as12', 'ome_as12') else fn}"]
    what = f"{fn}({json.dumps(case['args'])[:700]})"
    if ra is None:
        res.nontrivial = False
        res.fail(f"{ID}/crash/{g}/{fn}", f"the compiled worker process died while executing {what}")
        return res
    if "exc" in ra and ra.get("numba"):
        res.nontrivial = False
        res.fail(f"{ID}/compile/{g}/{fn}/{ra['exc']}", f"numba could not compile / type {what}: {ra['exc']}: {ra['msg']}")
        return res
    if "exc" in ra or "exc" in rb:
        res.nontrivial = False
        ea, eb = ra.get("exc"), rb.get("exc")
        if ea == eb:
            res.classes.append(f"both-raise:{ea}")
            return res
        res.fail(
            f"{ID}/exception/{g}/{fn}/compiled={ea}/interpreted={eb}",
            f"{what}: compiled " + (f"raised {ea}: {ra['msg'][:300]}" if ea else "returned a value")
            + "; interpreted " + (f"raised {eb}: {rb['msg'][:300]}" if eb else "returned a value"),
        )
        return res
    if g in ("quad_ker_ad", "quad_ker_ome") and rb["ok"]["k"] == "t" and ra["ok"]["k"] == "t" and len(ra["ok"]["v"]) == 3:
        # (kernel value, Mellin-inversion factor at u, peak modulus of that factor along the contour).  The solver
        # integrates the kernel over u, so the scale that matters is the peak of the integrand (at the real-axis crossing),
        # not the local value: in the tail (u -> 0.95) both the factor and Re(factor * element) are cancellation residues
        # 1e-15 and more below the peak (observed: 4.5e-9 relative noise on a factor of 1.7e-14 whose peak is 480).
        peak = float(_num(rb["ok"]["v"][2])[1][0].real)
        diffs = compare(ra["ok"]["v"][0], rb["ok"]["v"][0], "kernel", floor=peak, tol=TOL_GROUP[g])
        diffs += compare(ra["ok"]["v"][1], rb["ok"]["v"][1], "integrand-factor", floor=peak, tol=TOL)
        diffs += compare(ra["ok"]["v"][2], rb["ok"]["v"][2], "integrand-peak", floor=0.0, tol=TOL)
    else:
        diffs = compare(ra["ok"], rb["ok"], floor=SCALE_FLOOR.get(g, 0.0), tol=TOL_GROUP.get(g, TOL))
    res.nontrivial = is_float_result(rb["ok"])
    for kind, msg in diffs[:3]:
        res.fail(f"{ID}/{kind}/{g}/{fn}", f"{what}: {msg}")
    return res


def run_group(group, cases, timeout):
    """Evaluate the cases in both modes; returns a list of CaseResult aligned with the cases."""
    import numba

    if not numba.config.DISABLE_JIT:
        raise HarnessError("the comparing process must run interpreted (NUMBA_DISABLE_JIT=1)")
    p, ofile, lfile = spawn_compiled(cases, group)
    try:
        rb = [evaluate(cs) for cs in cases]
        ra, crashed, tail = read_worker(p, ofile, lfile, len(cases), timeout)
    finally:
        if p.poll() is None:
            p.kill()
            p.wait()
    out = []
    for i, cs in enumerate(cases):
        if i in ra:
            out.append(judge(cs, ra[i], rb[i]))
        elif crashed is not None and i == crashed:
            out.append(judge(cs, None, rb[i]))
        else:
            out.append(None)  # after a crash: not evaluated
    for f in (ofile, lfile, ofile.with_name(ofile.name.replace(".out.jsonl", ".cases.json"))):
        try:
            f.unlink()
        except OSError:
            pass
    return out


def draw_cases(group, tier, n, seed):
    import hypothesis
    from hypothesis import HealthCheck, Phase, given, settings

    got = []

    @hypothesis.seed(seed)
    @settings(max_examples=n, database=None, deadline=None, derandomize=False, suppress_health_check=list(HealthCheck),
              phases=[Phase.generate], print_blob=False)
    @given(STRATEGIES[group](tier))
    def collect(cs):
        cs = dict(cs)
        cs["group"] = group
        got.append(cs)

    collect()
    seen, out = set(), []
    for cs in got:
        k = json.dumps(cs, sort_keys=True)
        if k not in seen:
            seen.add(k)
            out.append(cs)
    return out


def run_custom(tier, seed, shard, nshards, record):
    gs = groups(tier)
    mine = [g for i, g in enumerate(gs) if i % nshards == shard]
    b = budget(tier)
    for g in mine:
        n = N_CASES_SLOW.get(g, N_CASES[tier])
        cases = draw_cases(g, tier, n, seed * 1000 + gs.index(g))
        results = run_group(g, cases, timeout=b["wall_s"] * 4)
        for cs, r in zip(cases, results):
            if r is not None:
                record(cs, r)


def check_case(case):
    """Replay of one case: compiled worker + interpreted evaluation in this process."""
    r = run_group(case["group"], [case], timeout=3600)[0]
    if r is None:
        raise HarnessError("replay produced no result")
    return r


if __name__ == "__main__":
    if len(sys.argv) >= 4 and sys.argv[1] == "--worker":
        worker_main(sys.argv[2:])
    else:
        raise SystemExit("usage: python -m vf.props.c48_compiled_vs_interpreted --worker CASES.json OUT.jsonl")

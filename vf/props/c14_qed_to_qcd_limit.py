"""C14 QED x QCD kernels reduce to the QCD kernels when alpha_em vanishes (kernel level and end to end)."""

import copy
import math

import numpy as np

from vf.core import CaseResult, exc_bucket

ID = "C14"
LEVEL = "exploration"
ENGINE = "K+R"
TECHNIQUE = (
    "kernel level: QED dispatchers at a_em = 0 on generated towers vs an independent mid-point product / quadrature and vs "
    "the QCD kernels on the same coupling steps; end to end: tiny QED solves with alpha_em -> 0 and growing iterations "
    "vs a finely iterated QCD solve, both error terms measured"
)
RULE = (
    "Two halves (field 'half'). K (kernel level, ~99.9% of the draws): sector in {singlet 4x4, valence 2x2, ns}, orders "
    "(1-4, 1-2), nf 3-6, 1-40 coupling steps between a0, a1 in [0.002,0.05] (either direction, |ln a1/a0| in [0.05,1]), "
    "step lists either exactly those of the QCD iterate kernel (geometric borders, arithmetic mid-points) or jittered "
    "(random step sizes, evaluation point in the middle 40% of the step), a_em column identically 0; QCD towers "
    "(non-commuting complex 2x2 singlet, ns+, diagonal or generic 2x2 valence, |gamma_k| <~ 10^k, from a drawn seed) "
    "embedded at gamma[i,0], every gamma[i,j>=1] filled with junk of size 0.1-1000. Oracles: (g,Sigma) block = ordered "
    "product of scipy expm of gamma(a_half)/beta(a_half) da with literature beta's, and = eko singlet.eko_iterate on the "
    "geometric lists; photon row/column = identity; Sigma_Delta entry = scalar mid-point product of ns+; valence "
    "likewise (and = singlet.eko_iterate for generic 2x2); non_singlet_qed = product of the QCD exact NS kernels of the steps = one-step QCD exact kernel = exp of the "
    "quadrature of gamma/beta. One draw in eight is a 'real' case: the ekore anomalous dimensions themselves (orders (1-4, "
    "1-2), nf 3-6, both N3LO parametrisations and variations, N on the Mellin inversion contour for x in [1e-3, 0.9], "
    "|N| from ~1) are fed to the QED singlet / valence / non-singlet dispatchers at a_em = 0 on 1-3 steps and compared "
    "channel by channel with the QCD kernels fed with the QCD anomalous dimensions ((g,Sigma) = singlet.eko_iterate, "
    "Sigma_Delta = ns+, V = nsV, V_Delta = ns-, ns+-u/d = ns+-, photon decoupled). E (end to end): fixed-flavour solves on 2-3 point grids, orders (1-3 (quick 1-2), 1-2), "
    "alpha_em fixed or running, alpha_em in {1e-4,1e-6,1e-8} at 8 iterations and alpha_em=1e-8 at 8,16,32 (thorough: "
    "10,20,...,160) iterations against the QCD solve (iterate-exact, 8 x the largest iteration count) on the 13 parton "
    "channels: the alpha_em differences must be linear in alpha_em and bounded by c1 alpha_em, the distance to QCD must "
    "shrink >= 3x per doubling of the iterations (down to the floor) and be bounded by c2/iterations^2; the photon row "
    "and column must tend to the identity linearly in alpha_em. Non-trivial = order[0] >= 2 and >= 3 coupling steps "
    "(K) / all five QED solves evaluated (E); distinct by the full case (K) / (order, running, nf, direction, grid) (E)."
)
ASSUMPTIONS = [
    "beta coefficients of the references from the literature table of c20_coefficients; the comparison with "
    "singlet.eko_iterate / non_singlet.dispatcher uses the repository's QCD kernels as second implementation",
    "kernel tolerance 1e-12 x cond(V) x steps relative (the repository exponentiates through numpy eig; V = eigenvectors of "
    "the first step generator, cases with cond(V) > 1e4 are outside the domain of that closed form and discarded, "
    "counted); non-singlet 1e-10 relative (closed-form evolution integrals with cubic roots at N3LO)",
    "'real' cases use ekore's QCD entry points (gamma_singlet, gamma_ns) as the reference for its QED grids: a defect "
    "common to both is C25-C30's business, a difference between them is this property's; tolerance 10 x the kernel one",
    "'Sigma_Delta / V_Delta follow the non-singlet kernels for the same coupling steps' is decided against the scalar "
    "mid-point product on those steps (rounding level); their distance to the closed-form NS kernel is the "
    "discretisation error of the iterated solution, which C12 / C09 bound (a flat h^2 bound was tried here and is "
    "exceeded by correct code at N3LO, where the integrand curves strongly)",
    "end to end: quad tolerance tightened to 1e-9 from the harness (tight_quad of C50); noise floor 1e-9 |E| (measured: "
    "the ratio of the two alpha_em differences reproduces the nominal 101.01 to 4 digits, i.e. noise < 1e-11)",
    "end-to-end constants, relative to max|E_QCD|, with dt = ln(mu_hi^2/mu_lo^2): alpha_em term <= c1 alpha_em with c1 = "
    "dt (measured 0.09-0.17 dt); photon row/column <= 6 dt alpha_em (measured <= 1.0 dt); distance to QCD at N "
    "iterations <= 60 c^3 / N^2 with c = beta0 a_max dt the LO estimate of ln(a_hi/a_lo) (measured 3-8 c^3 / N^2); "
    "shrink factor per doubling >= 3 (measured 3.9-4.0) down to the floor c1 1e-8 + 1e-9 + the reference's own "
    "discretisation error; linearity window: measured ratio within a factor 2 of the nominal 101",
    "interpreted mode (NUMBA_DISABLE_JIT=1)",
]
LEVEL_TEXT = (
    "Generated-input exploration: thousands of kernel cases with rounding-level oracles (independent product / "
    "quadrature and the QCD kernels as second implementation) plus a handful of end-to-end limits in which both error "
    "terms of the statement are measured. Finite samples."
)

K_TOL = 1e-12
NS_TOL = 1e-10
COND_MAX = 1e4
E_NOISE = 1e-9


def budget(tier):
    if tier == "quick":
        return dict(max_examples=9600, shards=16, wall_s=150, shrink_s=15)
    return dict(max_examples=48000, shards=16, wall_s=850, shrink_s=150)


# --------------------------------------------------------------------------------------------- strategies


def strategy_kernel(tier):
    from hypothesis import strategies as st

    from vf import strategies as S
    from vf.core import jhash

    @st.composite
    def build(draw):
        sector = draw(st.sampled_from(("singlet", "valence", "ns", "singlet", "real", "singlet", "valence", "ns")))
        n = draw(st.sampled_from((2, 3, 4, 1, 2, 3, 4)))
        m = draw(st.sampled_from((1, 2)))
        a0 = draw(S.log_floats(0.002, 0.05))
        c = draw(S.floats(0.05, 1.0))
        a1 = a0 * math.exp(c if draw(st.booleans()) else -c)
        if a1 > 0.05 or a1 < 0.002:
            a1 = a0 * a0 / a1
        a1 = min(max(a1, 0.002), 0.05)
        case = {
            "half": "K", "sector": sector, "order": [n, m], "nf": draw(st.sampled_from((4, 5, 3, 6))),
            "steps": draw(st.sampled_from((3, 5, 8, 13, 1, 2, 20, 40, 4, 10))), "a": [a0, a1],
            "lists": draw(st.sampled_from(("geom", "jitter"))), "valence_generic": draw(st.booleans()),
            "lnmu": [draw(S.floats(0.0, 6.0)), draw(S.floats(0.0, 6.0))], "running": draw(st.booleans()),
        }
        if sector == "real":
            # real ekore anomalous dimensions at a Mellin point of the inversion contour (small |N| for x -> 1 ... larger for small x)
            case.update(
                steps=draw(st.sampled_from((1, 2, 3))), lists="geom", u=draw(S.floats(0.5, 0.95)), lnx=draw(S.floats(math.log(1e-3), math.log(0.9))),
                singlet_path=draw(st.booleans()), fhmruvv=draw(st.booleans()),
                n3lo=[draw(st.integers(0, 2)) for _ in range(7)] if n == 4 and draw(st.booleans()) else [0] * 7,
            )
        # Hypothesis favours simple values (measured: 18 % of drawn seeds are 0, half of the couplings sit on the lower
        # bound): mix the drawn seed with a hash of all other fields so that towers differ whenever anything differs
        case["seed"] = (draw(st.integers(0, 2**31 - 1)) ^ int(jhash(case), 16)) % 2**31
        return case

    return build()


def e2e_case(tier, seed):
    """End-to-end case as a function of one integer drawn by Hypothesis (numpy Generator seeded with it)."""
    rng = np.random.default_rng(int(seed))
    quick = tier == "quick"

    def pick(seq):
        return seq[int(rng.integers(0, len(seq)))]

    def uni(lo, hi):
        return float(rng.uniform(lo, hi))

    n = pick((2, 2, 2, 1) if quick else (2, 3, 2, 1))
    x0 = uni(0.05, 0.3)
    three = bool(pick((False, True))) and not quick
    return {
        "half": "E", "order": [n, pick((1, 2))], "nf": pick((3, 4, 5)), "mu0": uni(2.0, 5.0), "ratio": uni(1.5, 3.0),
        "up": bool(pick((False, True))), "alphas": uni(0.2, 0.33), "running": bool(pick((False, True))),
        "aems": [1e-4, 1e-6, 1e-8], "n_aem": 8 if quick else 10, "iters": [8, 16, 32] if quick else [10, 20, 40, 80, 160],
        "xgrid": [x0, math.sqrt(x0), 1.0] if three else [x0, 1.0], "seed": int(seed),
    }


def strategy_e2e(tier):
    from hypothesis import strategies as st

    return st.integers(0, 2**31 - 1).map(lambda sd: e2e_case(tier, sd))


def strategy(tier):
    # A kernel case is always drawn; whether it is replaced by an end-to-end case is decided by its content hash, and the
    # end-to-end case is a function of the kernel case's drawn seed (a drawn selector comes in bursts because Hypothesis
    # mutates earlier examples, and examples needing more draws than their parent are dropped - measured for C51).
    from vf.core import jhash

    n_sel = 1600 if tier == "quick" else 2400
    return strategy_kernel(tier).map(lambda k: k if int(jhash(k), 16) % n_sel != 0 else e2e_case(tier, k["seed"]))


# --------------------------------------------------------------------------------------------- kernel half


def _close(got, want, tol):
    got, want = np.asarray(got), np.asarray(want)
    scale = max(float(np.max(np.abs(want))), 1e-300)
    return float(np.max(np.abs(got - want))) / scale, scale


def check_real(case):
    """Kernel level with the *real* ekore anomalous dimensions: at a_em = 0 every channel of the unified-basis kernels must
    coincide with the QCD kernel fed with the QCD anomalous dimensions of the corresponding sector."""
    import ekore.anomalous_dimensions.unpolarized.space_like as ad_us
    from eko import beta as eko_beta
    from eko import mellin
    from eko.kernels import EvoMethods
    from eko.kernels import non_singlet as ns
    from eko.kernels import non_singlet_qed as qed_ns
    from eko.kernels import singlet as s
    from eko.kernels import singlet_qed as qed_s
    from eko.kernels import valence_qed as qed_v
    from vf.refs import qs_qed0 as Q

    res = CaseResult()
    order, nf, k = tuple(case["order"]), case["nf"], case["steps"]
    n, m = order
    a0, a1 = case["a"]
    var, fh = tuple(case["n3lo"]), case["fhmruvv"]
    # as in the runner: singlet quantities on the singlet contour (offset 1, away from the N = 1 pole), the others on
    # the contour the case selects
    N = complex(mellin.Path(case["u"], case["lnx"], True).n)
    N_ns = complex(mellin.Path(case["u"], case["lnx"], case["singlet_path"]).n)
    res.classes = ["K/sector=real", f"K/n={n}", f"K/m={m}", f"K/real/|N|{'<2' if abs(N) < 2 else ('<5' if abs(N) < 5 else '>=5')}", f"K/real/fhmruvv={fh}"]
    res.nontrivial = bool(n >= 2)
    al, ah = Q.coupling_lists(a0, a1, k, "geom", None)
    a_half = np.zeros((k, 2))
    a_half[:, 0] = ah
    beta_e = [float(eko_beta.beta_qcd((2 + i, 0), nf)) for i in range(n)]
    method = EvoMethods.ITERATE_EXACT
    qcd_order = (n, 0)
    what = f"order {list(order)}, nf={nf}, N={N:.4f} (ns/valence: {N_ns:.4f}), steps {k}, a=({a0},{a1}), fhmruvv={fh}, n3lo_ad_variation={list(var)}"
    try:
        g_s = ad_us.gamma_singlet_qed(order, N, nf, var, fh)
        g_v = ad_us.gamma_valence_qed(order, N_ns, nf, var, fh)
        qcd_s = np.array(ad_us.gamma_singlet(qcd_order, N, nf, var, fh))
        sd_tower = np.array(ad_us.gamma_ns(qcd_order, 10101, N, nf, var, fh))
        qcd_ns = {name: np.array(ad_us.gamma_ns(qcd_order, mode, N_ns, nf, var, fh)) for name, mode in (("ns+", 10101), ("ns-", 10201), ("nsV", 10200))}
        K4 = np.asarray(qed_s.dispatcher(order, method, g_s, al, a_half, nf, k, (10, m)))
        K2 = np.asarray(qed_v.dispatcher(order, method, g_v, al, a_half, nf, k, (10, m)))
        ref_s = s.eko_iterate(qcd_s, a1, a0, beta_e, qcd_order, k)
        ns_q = {}
        for mode, name in ((10102, "ns+"), (10103, "ns+"), (10202, "ns-"), (10203, "ns-")):
            g = ad_us.gamma_ns_qed(order, mode, N_ns, nf, var, fh)
            got = complex(qed_ns.dispatcher(order, method, g, al, np.zeros(k), case["running"], nf, k, 10.0, 100.0))
            ns_q[mode] = (name, got, complex(ns.dispatcher(qcd_order, method, qcd_ns[name].copy(), a1, a0, nf)))
    except NotImplementedError as e:  # e.g. nf = 6 is not available at N3LO: documented refusal, outside the domain
        return CaseResult(discarded=f"K/real/refused:{str(e)[:40]}")
    except Exception as e:  # noqa: BLE001 - repo code on in-domain input
        res.fail(exc_bucket(f"{ID}/K/real/call", e), f"{e!r}; {what}")
        return res
    cond = Q.eig_condition(Q.step_generators(qcd_s, al, ah, beta_e)[0])
    if cond > COND_MAX:
        return CaseResult(discarded="K/ill-conditioned eigenvectors (outside the closed-form exponential's domain)")
    tol = K_TOL * max(cond, 1.0) * k * 10
    scale = max(float(np.max(np.abs(ref_s))), 1.0)
    block = np.array([[K4[2, 2], K4[2, 0]], [K4[0, 2], K4[0, 0]]])
    d = float(np.max(np.abs(block - ref_s))) / scale
    if not d <= tol:
        res.fail(f"{ID}/K/real/singlet-block-vs-qcd", f"(g,Sigma) block of the QED singlet kernel at a_em=0 vs QCD singlet kernel: rel {d:.2e} > {tol:.1e}; {what}")
    rest = K4.copy()
    for i, j in ((0, 0), (0, 2), (2, 0), (2, 2), (1, 1), (3, 3)):
        rest[i, j] = 0.0
    if not (abs(K4[1, 1] - 1.0) <= tol and np.max(np.abs(rest)) <= tol * scale):
        res.fail(f"{ID}/K/real/photon-or-leak", f"photon entry {K4[1, 1]!r}, largest forbidden entry {np.max(np.abs(rest)):.2e} at a_em=0; {what}")
    # the Delta / valence channels: scalar mid-point products of the QCD non-singlet towers on the same steps
    chans = [("Sigma_Delta", K4[3, 3], "ns+", sd_tower), ("V", K2[0, 0], "nsV", qcd_ns["nsV"]), ("V_Delta", K2[1, 1], "ns-", qcd_ns["ns-"])]
    for name, got, tower, coeffs in chans:
        want = Q.midpoint_product(coeffs, al, ah, beta_e)
        if not abs(got - want) <= tol * max(abs(want), 1.0):
            res.fail(
                f"{ID}/K/real/{name}-vs-qcd-{tower}",
                f"{name} entry {got!r} at a_em=0 vs the QCD {tower} kernel on the same steps {want!r}: rel {abs(got - want) / abs(want):.2e} > {tol:.1e}; {what}",
            )
    if not max(abs(K2[0, 1]), abs(K2[1, 0])) <= tol * max(float(np.max(np.abs(K2))), 1.0):
        res.fail(f"{ID}/K/real/photon-or-leak", f"valence off-diagonal {max(abs(K2[0, 1]), abs(K2[1, 0])):.2e} at a_em=0; {what}")
    for mode, (name, got, want) in ns_q.items():
        if not abs(got - want) <= NS_TOL * abs(want):
            res.fail(f"{ID}/K/real/ns-qed-vs-qcd-{name}", f"non_singlet_qed mode {mode} at a_em=0 {got!r} vs QCD {name} kernel {want!r}: rel {abs(got - want) / abs(want):.2e}; {what}")
    return res


def check_kernel(case):
    from eko import beta as eko_beta
    from eko.kernels import EvoMethods
    from eko.kernels import non_singlet as ns
    from eko.kernels import non_singlet_qed as qed_ns
    from eko.kernels import singlet as s
    from eko.kernels import singlet_qed as qed_s
    from eko.kernels import valence_qed as qed_v
    from vf.refs import qs_qed0 as Q

    if case["sector"] == "real":
        return check_real(case)
    res = CaseResult()
    sector, order, nf, k = case["sector"], case["order"], case["nf"], case["steps"]
    n, m = order
    a0, a1 = case["a"]
    res.classes = [f"K/sector={sector}", f"K/n={n}", f"K/m={m}", f"K/lists={case['lists']}", f"K/steps={'1-2' if k < 3 else '3+'}"]
    res.nontrivial = bool(n >= 2 and k >= 3)
    S, nsp, V, rng, junk = Q.towers(order, case["seed"], case["valence_generic"])
    al, ah = Q.coupling_lists(a0, a1, k, case["lists"], rng)
    a_half = np.zeros((k, 2))
    a_half[:, 0] = ah  # a_em column stays exactly 0
    beta_l = Q.beta_lit(n, nf)
    beta_e = [float(eko_beta.beta_qcd((2 + i, 0), nf)) for i in range(n)]
    c = abs(math.log(a1 / a0))
    where = f"order=({n},{m})"
    geom = case["lists"] == "geom"
    method = EvoMethods.ITERATE_EXACT

    if sector in ("singlet", "valence"):
        dim = 4 if sector == "singlet" else 2
        T = S if sector == "singlet" else V
        gen0 = Q.step_generators(T, al, ah, beta_l)[0]
        cond = Q.eig_condition(gen0)
        if cond > COND_MAX:
            return CaseResult(discarded="K/ill-conditioned eigenvectors (outside the closed-form exponential's domain)")
        tol = K_TOL * max(cond, 1.0) * k
        g = Q.embed_singlet(S, nsp, order, rng, junk) if sector == "singlet" else Q.embed_matrix(V, order, rng, junk)
        disp = qed_s.dispatcher if sector == "singlet" else qed_v.dispatcher
        try:
            K = disp(tuple(order), method, g, al, a_half, nf, k, (10, m))
        except Exception as e:  # noqa: BLE001 - repo code on in-domain input
            res.fail(exc_bucket(f"{ID}/K/call/{sector}", e), f"{e!r}")
            return res
        K = np.asarray(K)
        if K.shape != (dim, dim) or not np.all(np.isfinite(K)):
            res.fail(f"{ID}/K/shape-or-nonfinite/{sector}", f"kernel shape {K.shape}, finite={bool(np.all(np.isfinite(K)))}")
            return res
        ref = Q.midpoint_product(T, al, ah, beta_l)
        if sector == "singlet":
            block = np.array([[K[2, 2], K[2, 0]], [K[0, 2], K[0, 0]]])  # back to the QCD (Sigma, g) order
            sd_ref = Q.midpoint_product(nsp, al, ah, beta_l)
            rest = K.copy()
            for i, j in ((0, 0), (0, 2), (2, 0), (2, 2), (1, 1), (3, 3)):
                rest[i, j] = 0.0
            scale = max(float(np.max(np.abs(ref))), 1.0)
            if abs(K[1, 1] - 1.0) > tol:
                res.fail(f"{ID}/K/photon-not-trivial", f"{where}: photon entry {K[1, 1]!r} != 1 at a_em = 0 (tol {tol:.1e})")
            if np.max(np.abs(rest)) > tol * scale:
                idx = np.unravel_index(np.argmax(np.abs(rest)), rest.shape)
                res.fail(
                    f"{ID}/K/leak/{sector}",
                    f"{where}: entry {tuple(int(i) for i in idx)} = {rest[idx]!r} couples sectors that decouple at a_em = 0 (tol {tol * scale:.1e})",
                )
            d, _ = _close(K[3, 3], sd_ref, tol)
            if d > tol:
                res.fail(f"{ID}/K/diag-vs-ns-midpoint/singlet", f"{where}: Sigma_Delta entry {K[3, 3]!r} vs ns+ mid-point product {sd_ref!r}: rel {d:.2e} > {tol:.1e}")
        else:
            block = K
            if not case["valence_generic"]:
                # diagonal input (the physical case): V and V_Delta follow their own non-singlet mid-point products
                for name, idx in (("V", 0), ("V_Delta", 1)):
                    want = Q.midpoint_product(V[:, idx, idx], al, ah, beta_l)
                    d, _ = _close(K[idx, idx], want, tol)
                    if d > tol:
                        res.fail(f"{ID}/K/diag-vs-ns-midpoint/valence", f"{where}: {name} entry {K[idx, idx]!r} vs mid-point product {want!r}: rel {d:.2e} > {tol:.1e}")
                off = max(abs(K[0, 1]), abs(K[1, 0]))
                if off > tol * max(float(np.max(np.abs(ref))), 1.0):
                    res.fail(f"{ID}/K/leak/valence", f"{where}: valence off-diagonal {off:.2e} on diagonal input")
        d, _ = _close(block, ref, tol)
        if d > tol:
            res.fail(
                f"{ID}/K/{sector}-block-vs-midpoint-product",
                f"{sector} QCD block differs from the independent mid-point product by rel {d:.2e} > {tol:.1e} "
                f"(order {order}, nf={nf}, steps {k}, lists {case['lists']}, a=({a0},{a1}))",
            )
        if geom:
            try:
                qcd = s.eko_iterate(np.array(T, dtype=complex), a1, a0, beta_e, (n, 0), k)
            except Exception as e:  # noqa: BLE001
                res.fail(exc_bucket(f"{ID}/K/call/qcd-iterate", e), f"{e!r}")
                return res
            d, _ = _close(block, qcd, tol)
            if d > tol:
                res.fail(
                    f"{ID}/K/{sector}-block-vs-qcd-iterate",
                    f"{sector} QCD block differs from singlet.eko_iterate on the same steps by rel {d:.2e} > {tol:.1e} "
                    f"(order {order}, nf={nf}, steps {k}, a=({a0},{a1}))",
                )
        return res

    # non-singlet
    g = Q.embed_matrix(nsp, order, rng, junk)
    g[0, 0] = 0.0
    mu2_from, mu2_to = math.exp(case["lnmu"][0]), math.exp(case["lnmu"][1])
    try:
        K = qed_ns.dispatcher(tuple(order), method, g, al, np.zeros(k), case["running"], nf, k, mu2_from, mu2_to)
        steps = 1.0 + 0.0j
        for st_ in range(1, k + 1):
            steps *= ns.dispatcher((n, 0), method, np.array(nsp, dtype=complex), al[st_], al[st_ - 1], nf)
        one = ns.dispatcher((n, 0), method, np.array(nsp, dtype=complex), a1, a0, nf)
    except Exception as e:  # noqa: BLE001
        res.fail(exc_bucket(f"{ID}/K/call/ns", e), f"{e!r}")
        return res
    K = complex(K)
    if not np.isfinite(K):
        res.fail(f"{ID}/K/shape-or-nonfinite/ns", f"kernel {K!r}")
        return res
    quad_ref = Q.ns_exact_quadrature(nsp, a0, a1, beta_l)
    for name, ref, tol in (("qcd-steps", steps, 1e-12 * k), ("qcd-one-step", one, NS_TOL), ("quadrature", quad_ref, NS_TOL)):
        if abs(K - ref) > tol * abs(ref):
            res.fail(
                f"{ID}/K/ns-vs-{name}",
                f"non_singlet_qed at a_em=0: {K!r} vs {name} {ref!r}, rel {abs(K - ref) / abs(ref):.2e} > {tol:.1e} "
                f"(order {order}, nf={nf}, steps {k}, a=({a0},{a1}))",
            )
    return res


# --------------------------------------------------------------------------------------------- end-to-end half


def _card(case, order, alphaem, iters):
    mu0 = case["mu0"]
    mu1 = mu0 * case["ratio"]
    a, b = (mu0, mu1) if case["up"] else (mu1, mu0)
    return dict(
        order=list(order), alphas=case["alphas"], alphaem=alphaem, ref=[mu0, case["nf"]], init=[a, case["nf"]],
        mugrid=[[b, case["nf"]]], xgrid=case["xgrid"], deg=1, method="iterate-exact", iters=iters, max_order=[10, order[1]],
        em_running=case["running"] if order[1] else False, masses=[1.5, 4.5, 173.0],
    )


def _solve_one(card):
    from vf import runner_util as ru

    ops = ru.solve(card)
    (_, (op, _e)), = ops.items()
    return op


def check_e2e(case):
    from vf.props.c50_matching_scale import tight_quad

    res = CaseResult()
    n, m = case["order"]
    res.classes = [f"E/order={n},{m}", f"E/running={case['running']}", f"E/nf={case['nf']}", f"E/{'up' if case['up'] else 'down'}", f"E/npts={len(case['xgrid'])}"]
    res.key = [case["order"], case["running"], case["nf"], case["up"], len(case["xgrid"])]
    iters, aems, n0 = case["iters"], case["aems"], case["n_aem"]
    where = f"n={n}"
    try:
        with tight_quad():
            qcd = _solve_one(_card(case, [n, 0], 0.007496252, 8 * max(iters)))
            by_aem = {a: _solve_one(_card(case, [n, m], a, n0)) for a in aems}
            by_n = {n0: by_aem[aems[-1]]}
            for N in iters:
                if N not in by_n:
                    by_n[N] = _solve_one(_card(case, [n, m], aems[-1], N))
    except (NotImplementedError, ValueError) as e:
        return CaseResult(discarded=f"E/refused:{type(e).__name__}")
    except Exception as e:  # noqa: BLE001 - crashes are C04's verdict
        return CaseResult(discarded=exc_bucket("E/crash(decided by C04)", e))
    norm = float(np.max(np.abs(qcd)))
    npts = len(case["xgrid"])
    dt = 2.0 * math.log(case["ratio"])
    part = (slice(1, None), slice(None), slice(1, None), slice(None))

    def dist(x, y):
        return float(np.max(np.abs(x[part] - y[part]))) / norm

    # (1) the alpha_em term
    lo = by_aem[aems[-1]]
    d_aem = [dist(by_aem[a], lo) for a in aems[:-1]]
    c1 = 1.0 * dt
    c_ph = 6.0 * dt
    for a, d in zip(aems[:-1], d_aem):
        if not d <= c1 * a + E_NOISE:
            res.fail(f"{ID}/E/aem-term-too-large/{where}", f"|E_QED(aem={a}) - E_QED(aem={aems[-1]})| / |E| = {d:.3e} > c1 aem = {c1 * a:.3e} on the parton channels")
    if d_aem[1] > 10 * E_NOISE:
        ratio = d_aem[0] / d_aem[1]
        nominal = (aems[0] - aems[2]) / (aems[1] - aems[2])
        res.classes.append("E/aem-linear-measured")
        if not nominal / 2 <= ratio <= nominal * 2:
            res.fail(f"{ID}/E/aem-term-not-linear/{where}", f"alpha_em differences {d_aem} for alpha_em={aems}: ratio {ratio:.1f}, nominal {nominal:.1f}")
    elif not d_aem[1] <= d_aem[0] / 30 + E_NOISE:
        res.fail(f"{ID}/E/aem-term-not-shrinking/{where}", f"alpha_em differences {d_aem} for alpha_em={aems}")
    # (2) the discretisation term
    D = [dist(by_n[N], qcd) for N in iters]
    floor = c1 * aems[-1] + E_NOISE + D[0] * (iters[0] / (8.0 * max(iters))) ** 2 * 3
    # size of the coupling span c = ln(a_hi/a_lo) ~ beta0 a dt (LO estimate from the card, no repository code)
    a_ref = case["alphas"] / (4 * math.pi)
    b0 = 11.0 - 2.0 / 3.0 * case["nf"]
    a_max = a_ref if case["up"] else a_ref / (1.0 - b0 * a_ref * dt)
    c2 = 60.0 * (b0 * a_max * dt) ** 3
    shr = []
    for i in range(len(iters) - 1):
        if D[i] > 30 * floor:
            shr.append(D[i] / max(D[i + 1], 1e-300))
            if not D[i + 1] <= D[i] / 3.0 + floor:
                res.fail(
                    f"{ID}/E/discretisation-not-shrinking/{where}",
                    f"|E_QED(aem=1e-8, N) - E_QCD| / |E| = {['%.3e' % d for d in D]} for N={iters}: step {iters[i]}->{iters[i + 1]} shrinks by "
                    f"{D[i] / D[i + 1]:.2f} < 3 (floor {floor:.1e}); order {case['order']}, running={case['running']}",
                )
    if shr:
        res.classes.append(f"E/shrink~{round(min(shr))}")
    if not D[-1] <= c2 / iters[-1] ** 2 + floor:
        res.fail(
            f"{ID}/E/limit-not-qcd/{where}",
            f"|E_QED(aem=1e-8, N={iters[-1]}) - E_QCD| / |E| = {D[-1]:.3e} > c2/N^2 = {c2 / iters[-1] ** 2:.3e}: the QED solve does not tend to "
            f"the QCD solve on the parton channels (D={['%.3e' % d for d in D]}, N={iters}); order {case['order']}, running={case['running']}",
        )
    # (3) the photon decouples linearly in alpha_em
    eye = np.eye(npts)
    ph = []
    for a in aems:
        op = by_aem[a]
        ph.append(max(float(np.max(np.abs(op[0, :, 0, :] - eye))), float(np.max(np.abs(op[0, :, 1:, :]))), float(np.max(np.abs(op[1:, :, 0, :])))))
    for a, p in zip(aems, ph):
        if not p <= c_ph * a * max(norm, 1.0) + E_NOISE:
            res.fail(f"{ID}/E/photon-not-trivial/{where}", f"photon row/column deviates from the identity by {p:.3e} at alpha_em={a} (> {c_ph * a * max(norm, 1.0):.3e})")
    res.nontrivial = bool(n >= 2)
    return res


def check_case(case):
    case = copy.deepcopy(case)
    if case["half"] == "K":
        return check_kernel(case)
    return check_e2e(case)

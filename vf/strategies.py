"""Shared Hypothesis strategies (all JSON-serialisable outputs)."""

import math

from hypothesis import strategies as st


def floats(lo, hi):
    return st.floats(lo, hi, allow_nan=False, allow_infinity=False)


def log_floats(lo, hi):
    """Log-uniform floats in [lo, hi] (lo > 0)."""
    return st.floats(math.log(lo), math.log(hi)).map(math.exp)


def complex_box(re_lo, re_hi, im_lo, im_hi):
    """[re, im] pairs."""
    return st.tuples(floats(re_lo, re_hi), floats(im_lo, im_hi)).map(list)


def complex_disc(rmax, rmin=0.0):
    """[re, im] with modulus in [rmin, rmax]."""
    return st.tuples(floats(rmin, rmax), floats(0, 2 * math.pi)).map(
        lambda t: [t[0] * math.cos(t[1]), t[0] * math.sin(t[1])]
    )


def c(z):
    """[re, im] -> complex."""
    return complex(z[0], z[1])


nf = st.integers(3, 6)
qcd_order = st.integers(1, 4)


def coupling_pair(lo=0.002, hi=0.05, min_log_ratio=0.05):
    """(a0, a1) in [lo, hi] in either order with |ln(a1/a0)| >= min_log_ratio (by construction)."""

    @st.composite
    def build(draw):
        a0 = draw(log_floats(lo, hi))
        span_up = math.log(hi / a0)
        span_dn = math.log(a0 / lo)
        up = draw(st.booleans())
        if up and span_up < min_log_ratio:
            up = False
        if not up and span_dn < min_log_ratio:
            up = True
        span = span_up if up else span_dn
        d = draw(floats(min_log_ratio, max(span, min_log_ratio)))
        a1 = a0 * math.exp(d if up else -d)
        a1 = min(max(a1, lo), hi)
        return [a0, a1]

    return build()


def mellin_n(re_lo=0.5, re_hi=50.0, im_max=60.0):
    """Complex N away from the negative axis poles: [re, im]."""
    return st.tuples(floats(re_lo, re_hi), floats(-im_max, im_max)).map(list)

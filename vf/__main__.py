from vf.core import main

main()

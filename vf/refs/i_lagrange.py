"""Independent reference for eko's piecewise Lagrange interpolation basis (engine I: C34, C35, C42).

Typed from ``doc/source/theory/Interpolation.rst`` ("Algorithm", steps 1-4); nothing here imports eko.

* areas  A_i = (u_i, u_{i+1}], i = 0..n-2, the lowest node belongs to A_0;
* blocks of ``deg+1`` consecutive nodes; the block of an area is the one "in which the area is located most central",
  ties (even degree) go to the block "located higher, i.e. closer to x=1", at the border "the most central" admissible
  one.  This is implemented literally as an arg-min over all admissible blocks (``block_start``), not with the
  index arithmetic of the code under test;
* inside an area the active polynomials are the Lagrange polynomials over the block, evaluated in *product form*
  prod_k (u-u_k)/(u_j-u_k) (the code under test expands them into monomial coefficients).

The variable ``u`` is ``ln x`` for logarithmic and ``x`` for linear interpolation.  Everything is exact
(``fractions.Fraction``) when the inputs are Fractions; floats are converted exactly (every float is a rational), so
"the polynomial through these float nodes evaluated at this float point" has a unique exact answer.
"""

from fractions import Fraction as F


def block_start(i, n, deg):
    """First node index of the block used in area ``i`` (between nodes i and i+1) for ``n`` nodes."""
    best = None
    for kmin in range(0, n - deg):  # block = kmin .. kmin+deg, must lie inside the grid
        if not (kmin <= i and i + 1 <= kmin + deg):  # must contain the area
            continue
        # distance of block centre from area centre, in units of half node indices (integers -> exact)
        dist = abs((2 * kmin + deg) - (2 * i + 1))
        if best is None or dist < best[0] or (dist == best[0] and kmin > best[1]):
            best = (dist, kmin)
    if best is None:
        raise ValueError(f"no admissible block for area {i} with n={n}, deg={deg}")
    return best[1]


def area_index(u, nodes):
    """Index i of the area (nodes[i], nodes[i+1]] containing ``u``; the lowest node belongs to area 0."""
    n = len(nodes)
    if u < nodes[0] or u > nodes[-1]:
        raise ValueError("point outside the grid")
    if u == nodes[0]:
        return 0
    lo, hi = 0, n - 1  # invariant nodes[lo] < u <= nodes[hi]
    while hi - lo > 1:
        mid = (lo + hi) // 2
        if u <= nodes[mid]:
            hi = mid
        else:
            lo = mid
    return lo


def basis_row(u, nodes, deg, area=None):
    """Exact values [p_0(u), ..., p_{n-1}(u)] as Fractions; ``nodes`` sorted strictly increasing."""
    nodes = [F(x) for x in nodes]
    u = F(u)
    n = len(nodes)
    i = area_index(u, nodes) if area is None else area
    k0 = block_start(i, n, deg)
    row = [F(0)] * n
    for j in range(k0, k0 + deg + 1):
        num, den = F(1), F(1)
        for k in range(k0, k0 + deg + 1):
            if k != j:
                num *= u - nodes[k]
                den *= nodes[j] - nodes[k]
        row[j] = num / den
    return row


def lebesgue(row):
    return sum(abs(p) for p in row)


def poly_eval(coeffs, u, center=0):
    """sum_m coeffs[m] (u-center)^m, exact."""
    u = F(u) - F(center)
    tot = F(0)
    for c in reversed(coeffs):
        tot = tot * u + F(c)
    return tot


def mono_coeffs(nodes, k0, deg, j):
    """Exact monomial coefficients c_0..c_deg of the Lagrange polynomial of node ``j`` over block k0..k0+deg."""
    nodes = [F(x) for x in nodes]
    c = [F(1)]
    den = F(1)
    for k in range(k0, k0 + deg + 1):
        if k == j:
            continue
        den *= nodes[j] - nodes[k]
        new = [F(0)] * (len(c) + 1)
        for i, ci in enumerate(c):
            new[i + 1] += ci
            new[i] -= nodes[k] * ci
        c = new
    return [ci / den for ci in c]


class RefBasis:
    """Exact reference basis on float nodes (converted exactly to Fractions), with per-area caches."""

    def __init__(self, nodes, deg):
        self.nodes = [F(x) for x in nodes]
        self.n = len(self.nodes)
        self.deg = deg
        if not all(a < b for a, b in zip(self.nodes, self.nodes[1:])):
            raise ValueError("nodes must be strictly increasing")
        if deg < 1 or self.n < deg + 1:
            raise ValueError("invalid degree for this grid")
        self._mag = {}

    def area(self, u):
        return area_index(F(u), self.nodes)

    def row(self, u, area=None):
        """[p_0(u), ..., p_{n-1}(u)] exactly."""
        return basis_row(u, self.nodes, self.deg, area=self.area(u) if area is None else area)

    def magnitude(self, area):
        """S_j = sum_i |c_ji| U^i per node j (0 outside the block of ``area``), U = max |node| over the block.

        This is the largest magnitude entering the cancellation when a Lagrange polynomial *stored as monomial
        coefficients in u* (the documented ``areas_representation``: xmin, xmax, coefficients; the Mellin-space
        formulas of Mellin.rst need this form) is evaluated anywhere inside the block: the rounding error of any such
        evaluation is a small multiple of eps * S_j.  Computed exactly and independently of the code under test.
        """
        if area not in self._mag:
            k0 = block_start(area, self.n, self.deg)
            big = max(abs(self.nodes[k]) for k in range(k0, k0 + self.deg + 1))
            out = [F(0)] * self.n
            for j in range(k0, k0 + self.deg + 1):
                out[j] = sum(abs(c) * big**m for m, c in enumerate(mono_coeffs(self.nodes, k0, self.deg, j)))
            self._mag[area] = [float(v) for v in out]
        return self._mag[area]


def interp_matrix(nodes, deg, points):
    """R[i][j] = p_j(points[i]) as floats (exact values rounded once): Interpolation.rst "Change Interpolation Basis".

    ``nodes`` and ``points`` are given in the interpolation variable (ln x or x); every point must lie inside the
    node range.
    """
    ref = RefBasis(nodes, deg)
    return [[float(p) for p in ref.row(u)] for u in points]


def interp_matrix_with_magnitude(nodes, deg, points):
    """(R, M): R as in ``interp_matrix``; M[i][j] = RefBasis.magnitude(area of point i)[j], the size of the monomial
    terms behind R[i][j] when the basis is stored as monomial coefficients (error bound of such an evaluation / eps)."""
    ref = RefBasis(nodes, deg)
    R, M = [], []
    for u in points:
        ar = ref.area(u)
        R.append([float(p) for p in ref.row(u, ar)])
        M.append(list(ref.magnitude(ar)))
    return R, M

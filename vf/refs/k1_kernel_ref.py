"""Independent references for the solution kernels (C07, C10, C13).

Nothing here imports eko.  The beta-function coefficients come from the literature tables typed for C20
(``vf.props.c20_coefficients``: Herzog et al. 2017, Surguladze 1996), the integrals are the *defining* integrals of
``doc/source/theory/DGLAP.rst`` evaluated with ``mpmath.quad`` at 30 digits.

Conventions (pQCD.rst / DGLAP.rst / eko.beta docstring):

    da_s/dln(mu^2) = beta(a_s) = - sum_k beta_k a_s^(k+2),   beta_k > 0,
    df/dln(mu^2)   = - gamma(a_s) f,    gamma(a_s) = sum_k gamma_k a_s^(k+1)
    =>  dE/da = gamma(a) / (sum_k beta_k a^(k+2)) E,      E(a0) = 1
    j^(k)(a1, a0) = int_a0^a1 a^k / (sum_{i<n} beta_i a^(i+2)) da          (n = perturbative order)

With QED corrections and fixed a_em the QCD beta function becomes - sum_{j,k} beta^(j,k) a_s^j a_em^k, i.e.
beta_0 -> beta_0 + a_em beta^(2,1).
"""

import math

import mpmath as mp

from vf.props.c20_coefficients import ref_value

DPS = 30


def _dps():
    mp.mp.dps = DPS


def beta_list(nf, n):
    """[beta_0, ..., beta_{n-1}] for nf flavours (mpf), from the C20 literature tables."""
    _dps()
    return [ref_value(f"beta_qcd:{2 + i},0", nf, 3) for i in range(n)]


def beta_mix(nf):
    """beta^(2,1): coefficient of a_s^2 a_em in the QCD beta function (Surguladze 1996)."""
    _dps()
    return ref_value("beta_qcdx:2,1", nf, 3)


def _pieces(a0, a1):
    """Break [ln a0, ln a1] in pieces of length <= 0.5 (helps tanh-sinh on the 1/a behaviour)."""
    t0, t1 = mp.log(mp.mpf(a0)), mp.log(mp.mpf(a1))
    n = max(1, int(math.ceil(abs(float(t1 - t0)) / 0.5)))
    return [t0 + (t1 - t0) * i / n for i in range(n + 1)]


def quad_log(f, a0, a1, relative=True):
    """int_a0^a1 f(a) da with the substitution a = e^t; raises unless mpmath's own error estimate is < 1e-15 |value|
    (relative=False: < 1e-18 max(1, |value|), for callers that exponentiate the result)."""
    _dps()
    if a0 == a1:
        return mp.mpf(0)
    val, err = mp.quad(lambda t: f(mp.exp(t)) * mp.exp(t), _pieces(a0, a1), error=True)
    # relative guard: for nearly equal limits the value itself is tiny (down to 1e-20)
    bound = mp.mpf(10) ** (-15) * abs(val) + mp.mpf(10) ** (-45) if relative else mp.mpf(10) ** (-18) * max(1, abs(val))
    if err > bound:
        raise ArithmeticError(f"reference quadrature did not converge: err={err} val={val}")
    return val


def beta_poly(betas, a):
    """sum_i beta_i a^(i+2) (the *negative* of the beta function, positive for small a)."""
    return sum(b * a ** (i + 2) for i, b in enumerate(betas))


def j_def(k, betas, a0, a1):
    """Defining integral int_a0^a1 a^k / sum_i beta_i a^(i+2) da."""
    return quad_log(lambda a: a**k / beta_poly(betas, a), a0, a1)


def ns_exact(gammas, betas, a0, a1):
    """exp( int_a0^a1 sum_k gamma_k a^(k+1) / sum_i beta_i a^(i+2) da )  -- complex gammas allowed."""
    _dps()
    gs = [mp.mpc(g.real, g.imag) for g in gammas]

    def f(a):
        return sum(g * a ** (k + 1) for k, g in enumerate(gs)) / beta_poly(betas, a)

    return mp.exp(quad_log(f, a0, a1, relative=False))


def inv_series(b, nterms):
    """Coefficients c_0..c_{nterms-1} of 1/(1 + b_1 x + b_2 x^2 + ...) (generic recurrence)."""
    c = []
    for m in range(nterms):
        if m == 0:
            c.append(mp.mpf(1))
        else:
            c.append(-sum(mp.mpf(b[i - 1]) * c[m - i] for i in range(1, min(m, len(b)) + 1)))
    return c


def j_expanded(k, beta0, b, n, a0, a1):
    """Antiderivative of the Taylor-truncated integrand of j^(k) at perturbative order n.

    integrand = a^(k-2)/beta0 * sum_m c_m a^m; the module docstring of eko.kernels.evolution_integrals defines
    the expanded integrals as the expansion of the integral "until O(a^(m+1)) for N^mLO", i.e. at order n = m+1
    the integral keeps powers a^p with p <= n-1 (and the logarithm), so the integrand keeps a^q with q <= n-2.
    b = [b_1, ..., b_{n-1}].
    """
    _dps()
    a0, a1, beta0 = mp.mpf(a0), mp.mpf(a1), mp.mpf(beta0)
    c = inv_series(list(b), n)
    tot = mp.mpf(0)
    for m, cm in enumerate(c):
        q = k - 2 + m
        if q > n - 2:
            break
        if q == -1:
            tot += cm * mp.log(a1 / a0)
        else:
            tot += cm * (a1 ** (q + 1) - a0 ** (q + 1)) / (q + 1)
    return tot / beta0

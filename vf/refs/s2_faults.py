"""Harness-side call numbering and fault injection for the IO layer of eko (used by C38).

Nothing in the repository is changed: while a :class:`Plan` is *installed* the write primitives the IO layer uses and
the computation steps of the managed runner are replaced (module / class attributes) by counting wrappers.  Every call
made while ``plan.active`` is a numbered **site**; a plan may carry ``faults = {site index: kind}`` and the wrapper of
that site then misbehaves in the requested way:

``error``            raise before doing anything (``OSError(ENOSPC)`` for IO primitives, ``RuntimeError`` for steps)
``half``             do half of the work (half of the bytes / entries / members), then raise ``OSError(ENOSPC)``
``interrupt``        raise ``KeyboardInterrupt`` before doing anything
``interrupt-after``  do the work completely, then raise ``KeyboardInterrupt`` (a signal delivered right after the call)

The site numbering continues after a fault fired (exception handlers and later runs under the same plan are numbered
on), which is what fault *sequences* use.
"""

from __future__ import annotations

import builtins
import contextlib
import errno
import io
import os
import pathlib
import re
import shutil
import sys
import tarfile
import tempfile

IO_KINDS = ("error", "interrupt", "interrupt-after")
HALF_KINDS = ("error", "half", "interrupt", "interrupt-after")
STEP_KINDS = ("error", "interrupt", "interrupt-after")
USER_KINDS = ("error", "interrupt")


class Plan:
    """Numbering of sites, optional faults."""

    def __init__(self, faults=None, target_dir=None, scratch=None):
        self.faults = {int(k): v for k, v in (faults or {}).items()}
        self.n = 0
        self.log = []  # dict(idx, prim, what, zone, kinds)
        self.fired = []  # (idx, kind, label)
        self.active = False
        self.lenient = False
        self.target_dir = None if target_dir is None else str(pathlib.Path(target_dir).resolve())
        self.scratch = None if scratch is None else str(pathlib.Path(scratch).resolve())

    # ------------------------------------------------------------------ labels
    def describe(self, p):
        """(normalised text, zone) of a path-like argument: zone T = target directory, S = scratch, ? = elsewhere."""
        if p is None:
            return "-", "M"
        if isinstance(p, (io.BytesIO, io.StringIO)):
            return "<memory>", "M"
        if hasattr(p, "name") and not isinstance(p, (str, os.PathLike)):
            p = p.name
        try:
            s = os.path.abspath(os.fspath(p))
        except TypeError:
            return f"<{type(p).__name__}>", "M"
        if self.scratch and (s == self.scratch or s.startswith(self.scratch + os.sep)):
            rel = s[len(self.scratch):].lstrip(os.sep)
            rel = re.sub(r"^eko-[^/]+", "eko-*", rel)
            return "<tmp>/" + rel, "S"
        if self.target_dir and (s == self.target_dir or s.startswith(self.target_dir + os.sep)):
            return "<out>/" + s[len(self.target_dir):].lstrip(os.sep), "T"
        return s, "?"

    def enter(self, prim, what="", zone="M", kinds=IO_KINDS):
        """Number a call.  Returns (index, kind or None)."""
        idx = self.n
        self.n += 1
        self.log.append(dict(idx=idx, prim=prim, what=what, zone=zone, kinds=list(kinds)))
        kind = self.faults.get(idx)
        if kind is not None:
            if kind not in kinds and self.lenient:
                kind = "error"  # replayed on a tree whose site numbering moved: every site supports "error"
            if kind not in kinds:
                raise RuntimeError(f"harness: fault kind {kind} not applicable at site {idx} {prim} {what}")
            self.fired.append((idx, kind, f"{prim} {what}"))
        return idx, kind

    def user(self, label):
        """A point in the user's code inside the context."""
        if not self.active:
            return
        idx, kind = self.enter("user", label, "M", USER_KINDS)
        if kind == "error":
            raise injected(RuntimeError(f"user code failed at '{label}' [injected at site {idx}]"))
        if kind == "interrupt":
            raise injected(KeyboardInterrupt(f"[injected at site {idx}]"))


def injected(exc):
    exc.vf_injected = True
    return exc


def is_injected(exc):
    """True if exc or anything in its cause/context chain was raised by a wrapper."""
    seen = set()
    while exc is not None and id(exc) not in seen:
        seen.add(id(exc))
        if getattr(exc, "vf_injected", False):
            return True
        exc = exc.__cause__ or exc.__context__
    return False


def _enospc(idx, what):
    return injected(OSError(errno.ENOSPC, f"No space left on device [injected at site {idx}]", what))


def _interrupt(idx):
    return injected(KeyboardInterrupt(f"[injected at site {idx}]"))


class WriteProxy:
    """File object whose writes (and close) are numbered sites."""

    def __init__(self, plan, raw, what, zone, prim):
        object.__setattr__(self, "_p", (plan, raw, what, zone, prim))

    def __getattr__(self, name):
        return getattr(self._p[1], name)

    def __setattr__(self, name, value):
        setattr(self._p[1], name, value)

    def __enter__(self):
        self._p[1].__enter__()
        return self

    def __exit__(self, *a):
        return self._p[1].__exit__(*a)

    def __iter__(self):
        return iter(self._p[1])

    def write(self, data):
        plan, raw, what, zone, prim = self._p
        if not plan.active:
            return raw.write(data)
        idx, kind = plan.enter(prim + ".write", f"{what} [{len(data)}]", zone, HALF_KINDS)
        if kind == "error":
            raise _enospc(idx, what)
        if kind == "interrupt":
            raise _interrupt(idx)
        if kind == "half":
            raw.write(data[: len(data) // 2])
            with contextlib.suppress(Exception):
                raw.flush()
            raise _enospc(idx, what)
        r = raw.write(data)
        if kind == "interrupt-after":
            with contextlib.suppress(Exception):
                raw.flush()
            raise _interrupt(idx)
        return r

    def close(self):
        plan, raw, what, zone, prim = self._p
        if not plan.active or raw.closed:
            return raw.close()
        idx, kind = plan.enter(prim + ".close", what, zone, IO_KINDS)
        if kind == "error":
            raise _enospc(idx, what)
        if kind == "interrupt":
            raise _interrupt(idx)
        r = raw.close()
        if kind == "interrupt-after":
            raise _interrupt(idx)
        return r


def _generic(plan, prim, orig, what_of, kinds=IO_KINDS, half=None, step=False):
    """Counting wrapper around ``orig``; ``what_of(*a, **k)`` gives the path-like the label is built from."""

    def wrapper(*a, **k):
        if not plan.active:
            return orig(*a, **k)
        w = what_of(*a, **k)
        if step:
            what, zone = w, "M"
        elif isinstance(w, tuple):
            what, zone = w
        else:
            what, zone = plan.describe(w)
        idx, kind = plan.enter(prim, what, zone, kinds)
        if kind == "error":
            if step:
                raise injected(RuntimeError(f"{prim} failed [injected at site {idx}]"))
            raise _enospc(idx, what)
        if kind == "interrupt":
            raise _interrupt(idx)
        if kind == "half":
            half(*a, **k)
            raise _enospc(idx, what)
        r = orig(*a, **k)
        if kind == "interrupt-after":
            raise _interrupt(idx)
        return r

    wrapper.__wrapped__ = orig
    return wrapper


@contextlib.contextmanager
def installed(plan):
    """Replace the primitives by counting wrappers for the duration of the block."""
    import lz4.frame
    import numpy
    import yaml

    import eko.io.inventory
    import eko.io.items
    import eko.io.metadata
    import eko.io.paths
    import eko.io.struct
    import eko.runner.managed
    from eko.runner import operators as r_operators
    from eko.runner import parts as r_parts
    from eko.runner import recipes as r_recipes

    undo = []
    P = pathlib.Path

    def patch(obj, name, new, create=False):
        sentinel = object()
        old = obj.__dict__.get(name, sentinel) if create else getattr(obj, name)
        undo.append((obj, name, old, sentinel))
        setattr(obj, name, new)

    first = lambda *a, **k: a[0]  # noqa: E731
    second = lambda *a, **k: a[1]  # noqa: E731

    # ---- pathlib
    o_write_text = P.write_text

    def half_write_text(self, data, *a, **k):
        o_write_text(self, data[: len(data) // 2], *a, **k)

    patch(P, "write_text", _generic(plan, "Path.write_text", o_write_text, first, HALF_KINDS, half_write_text))
    o_write_bytes = P.write_bytes
    patch(P, "write_bytes", _generic(plan, "Path.write_bytes", o_write_bytes, first, HALF_KINDS,
                                     lambda self, data: o_write_bytes(self, data[: len(data) // 2])))
    for name in ("mkdir", "unlink", "rmdir", "rename", "replace", "touch"):
        patch(P, name, _generic(plan, f"Path.{name}", getattr(P, name), first))
    # ---- os / shutil / tempfile
    for name in ("replace", "rename"):
        patch(os, name, _generic(plan, f"os.{name}", getattr(os, name), second))
    o_rmtree = shutil.rmtree

    def half_rmtree(path, *a, **k):
        entries = sorted(os.listdir(path))
        for e in entries[: max(1, len(entries) // 2)]:
            q = os.path.join(path, e)
            o_rmtree(q) if os.path.isdir(q) and not os.path.islink(q) else os.unlink(q)

    patch(shutil, "rmtree", _generic(plan, "shutil.rmtree", o_rmtree, first, HALF_KINDS, half_rmtree))
    for name in ("copytree", "copy", "copy2", "copyfile", "move"):
        patch(shutil, name, _generic(plan, f"shutil.{name}", getattr(shutil, name), second))
    patch(tempfile, "mkdtemp", _generic(plan, "tempfile.mkdtemp", tempfile.mkdtemp,
                                        lambda *a, **k: tempfile.gettempdir()))
    # ---- open() as seen by the repository's modules
    o_open = builtins.open

    def w_open(file, mode="r", *a, **k):
        if not plan.active or not any(c in mode for c in "wax+"):
            return o_open(file, mode, *a, **k)
        what, zone = plan.describe(file)
        idx, kind = plan.enter(f"open({mode})", what, zone, IO_KINDS)
        if kind == "error":
            raise _enospc(idx, what)
        if kind == "interrupt":
            raise _interrupt(idx)
        fd = o_open(file, mode, *a, **k)
        if kind == "interrupt-after":
            fd.close()
            raise _interrupt(idx)
        return WriteProxy(plan, fd, what, zone, "file")

    for mname, mod in list(sys.modules.items()):
        if mod is not None and (mname == "eko" or mname.startswith(("eko.", "ekobox"))):
            patch(mod, "open", w_open, create=True)
    # ---- serialisation
    s_what = lambda *a, **k: "to stream" if (len(a) > 1 and a[1] is not None) or k.get("stream") is not None else "to str"  # noqa: E731
    patch(yaml, "dump", _generic(plan, "yaml.dump", yaml.dump, s_what, STEP_KINDS, step=True))
    patch(yaml, "safe_dump", _generic(plan, "yaml.safe_dump", yaml.safe_dump, s_what, STEP_KINDS, step=True))

    def half_save(orig):
        def h(file, *a, **k):
            buf = io.BytesIO()
            orig(buf, *a, **k)
            data = buf.getvalue()
            file.write(data[: len(data) // 2])

        return h

    for name in ("save", "savez", "savez_compressed"):
        orig = getattr(numpy, name)
        patch(numpy, name, _generic(plan, f"np.{name}", orig, first, HALF_KINDS, half_save(orig)))
    patch(lz4.frame, "compress", _generic(plan, "lz4.frame.compress", lz4.frame.compress,
                                          lambda *a, **k: f"{len(a[0])} bytes", STEP_KINDS, step=True))
    # ---- tarfile
    o_taropen = tarfile.open

    def w_taropen(name=None, mode="r", *a, **k):
        if not plan.active:
            return o_taropen(name, mode, *a, **k)
        what, zone = plan.describe(name)
        if not any(c in mode for c in "wax"):
            zone = "R"  # read access: not a write to the target
        idx, kind = plan.enter(f"tarfile.open({mode})", what, zone, IO_KINDS)
        if kind == "error":
            raise _enospc(idx, what)
        if kind == "interrupt":
            raise _interrupt(idx)
        tar = o_taropen(name, mode, *a, **k)
        if kind == "interrupt-after":
            with contextlib.suppress(Exception):
                tar.fileobj.close()
            raise _interrupt(idx)
        if any(c in mode for c in "wax"):
            tar.fileobj = WriteProxy(plan, tar.fileobj, what, zone, "archive")
        return tar

    patch(tarfile, "open", w_taropen)
    T = tarfile.TarFile
    patch(T, "add", _generic(plan, "TarFile.add", T.add, lambda self, name, *a, **k: name))
    patch(T, "addfile", _generic(plan, "TarFile.addfile", T.addfile, lambda self, ti, *a, **k: (ti.name, "T")))
    o_extractall = T.extractall

    def half_extractall(self, path=".", members=None, **k):
        ms = list(self.getmembers() if members is None else members)
        o_extractall(self, path, ms[: max(1, len(ms) // 2)], **k)

    patch(T, "extractall", _generic(plan, "TarFile.extractall", o_extractall,
                                    lambda self, path=".", *a, **k: path, HALF_KINDS, half_extractall))
    o_makefile = T.makefile

    def half_makefile(self, tarinfo, targetpath):
        o_makefile(self, tarinfo, targetpath)
        os.truncate(targetpath, os.path.getsize(targetpath) // 2)

    patch(T, "makefile", _generic(plan, "TarFile.makefile", o_makefile, lambda self, ti, tp: tp, HALF_KINDS,
                                  half_makefile))
    patch(T, "makedir", _generic(plan, "TarFile.makedir", T.makedir, lambda self, ti, tp: tp))
    # ---- computation steps of the managed runner
    patch(r_recipes, "create", _generic(plan, "recipes.create", r_recipes.create, lambda *a, **k: "", STEP_KINDS, step=True))
    patch(r_parts, "evolve", _generic(plan, "parts.evolve", r_parts.evolve, lambda eko, rec: _rec(rec), STEP_KINDS, step=True))
    patch(r_parts, "match", _generic(plan, "parts.match", r_parts.match, lambda eko, rec: _rec(rec), STEP_KINDS, step=True))
    patch(r_operators, "retrieve", _generic(plan, "operators.retrieve", r_operators.retrieve,
                                            lambda ep, eko: f"nf={ep[1]}", STEP_KINDS, step=True))
    patch(r_operators, "join", _generic(plan, "operators.join", r_operators.join,
                                        lambda comps: f"{len(comps)} components", STEP_KINDS, step=True))
    try:
        yield plan
    finally:
        plan.active = False
        for obj, name, old, sentinel in reversed(undo):
            if old is sentinel:
                delattr(obj, name)
            else:
                setattr(obj, name, old)


def _rec(rec):
    if hasattr(rec, "hq"):
        return f"matching hq={rec.hq} inverse={rec.inverse}"
    return f"segment nf={rec.nf} cliff={rec.cliff}"

"""Diagonalisable complex matrices with controlled conditioning, built by construction (C10, C23).

M = V diag(lambda) V^-1,  V = U1 diag(s) U2 with U1, U2 unitary (products of Givens rotations with phases) and
1 = s_min <= s_i <= s_max = kappa, hence cond_2(V) = kappa exactly (up to rounding) and ||M||_2 <= kappa max|lambda|.
The eigenvalues sit in distinct cells of a square lattice with a jitter of at most a third of the cell size, so
min |lambda_i - lambda_j| >= cell/3 by construction (no rejection).

Everything a case contains is plain JSON (lists of floats); ``materialise`` turns it into numpy arrays.
"""

import math

from hypothesis import strategies as st


def _floats(lo, hi):
    return st.floats(lo, hi, allow_nan=False, allow_infinity=False)


@st.composite
def spectral_case(draw, dim, kappa_max=50.0, norm_max=50.0, min_sep=0.1, max_cells=40):
    """JSON description of a dim x dim matrix with cond(V) <= kappa_max, ||M|| <= norm_max, separation >= min_sep."""
    kappa = math.exp(draw(_floats(0.0, math.log(kappa_max))))
    radius = norm_max / kappa  # max |lambda|
    half = radius / math.sqrt(2.0)
    cell = max(3.0 * min_sep, 2.0 * half / max_cells)
    m = max(2, int(math.floor(2.0 * half / cell)))
    cell = 2.0 * half / m
    if cell < 3.0 * min_sep:
        raise ValueError("spectral_case: the disc is too small for the requested separation")
    cells = draw(st.lists(st.integers(0, m * m - 1), min_size=dim, max_size=dim, unique=True))
    eigs = []
    for c in cells:
        ix, iy = divmod(c, m)
        jx = draw(_floats(-1.0, 1.0)) * cell / 3.0
        jy = draw(_floats(-1.0, 1.0)) * cell / 3.0
        eigs.append([-half + (ix + 0.5) * cell + jx, -half + (iy + 0.5) * cell + jy])
    sv = [1.0] + [math.exp(draw(_floats(0.0, math.log(kappa)))) for _ in range(dim - 2)] + [kappa]
    npairs = dim * (dim - 1) // 2
    ang = lambda: [[draw(_floats(0.0, math.pi / 2)), draw(_floats(0.0, 2 * math.pi))] for _ in range(npairs)]  # noqa: E731
    return {"dim": dim, "eigs": eigs, "sv": sv, "u1": ang(), "u2": ang(), "cell": cell}


def unitary(dim, angles):
    import numpy as np

    u = np.eye(dim, dtype=np.complex128)
    k = 0
    for i in range(dim):
        for j in range(i + 1, dim):
            th, ph = angles[k]
            k += 1
            g = np.eye(dim, dtype=np.complex128)
            c, s = math.cos(th), math.sin(th)
            e = complex(math.cos(ph), math.sin(ph))
            g[i, i] = c
            g[j, j] = c
            g[i, j] = -s * e
            g[j, i] = s * e.conjugate()
            u = u @ g
    return u


def materialise(case):
    """-> (M, V, eigenvalues, kappa)."""
    import numpy as np

    dim = case["dim"]
    lam = np.array([complex(z[0], z[1]) for z in case["eigs"]])
    v = unitary(dim, case["u1"]) @ np.diag(np.array(case["sv"], dtype=float)) @ unitary(dim, case["u2"])
    vinv = unitary(dim, case["u2"]).conj().T @ np.diag(1.0 / np.array(case["sv"], dtype=float)) @ unitary(dim, case["u1"]).conj().T
    m = v @ np.diag(lam) @ vinv
    return np.ascontiguousarray(m), v, lam, float(max(case["sv"]) / min(case["sv"]))

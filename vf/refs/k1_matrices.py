"""Diagonalisable complex matrices with controlled conditioning, built by construction (C10, C23).

M = V diag(lambda) V^-1,  V = U1 diag(s) U2 with U1, U2 unitary (products of Givens rotations with phases) and
1 = s_min <= s_i <= s_max = kappa, hence cond_2(V) = kappa exactly (up to rounding) and ||M||_2 <= kappa max|lambda|.
The eigenvalues sit in distinct cells of a square lattice with a jitter of at most a third of the cell size, so
min |lambda_i - lambda_j| >= cell/3 by construction (no rejection).

Everything a case contains is plain JSON (lists of floats); ``materialise`` turns it into numpy arrays.
"""

import math

from hypothesis import strategies as st


def _floats(lo, hi):
    return st.floats(lo, hi, allow_nan=False, allow_infinity=False)


@st.composite
def spectral_case(draw, dim, kappa_max=50.0, norm_max=50.0, min_sep=0.1, max_cells=40, tiny_first=False):
    """JSON description of a dim x dim matrix with cond(V) <= kappa_max, ||M|| <= norm_max, separation >= min_sep.

    tiny_first: the first eigenvalue is (nearly) zero -- modulus 0 or radius*10^-(k+u), k in 3..16, any phase -- i.e. a
    (nearly) singular matrix; it owns the central lattice cell, so the separation guarantee is unchanged."""
    kappa = math.exp(draw(_floats(0.0, math.log(kappa_max))))
    radius = norm_max / kappa  # max |lambda|
    half = radius / math.sqrt(2.0)
    cell = max(3.0 * min_sep, 2.0 * half / max_cells)
    m = max(2, int(math.floor(2.0 * half / cell)))
    if tiny_first and m % 2 == 0:
        m = m - 1 if m > 3 else 3
    cell = 2.0 * half / m
    if cell < 3.0 * min_sep:
        raise ValueError("spectral_case: the disc is too small for the requested separation")
    eigs = []
    if tiny_first:
        centre = (m // 2) * m + m // 2
        others = [c for c in range(m * m) if c != centre]
        idx = draw(st.lists(st.integers(0, len(others) - 1), min_size=dim - 1, max_size=dim - 1, unique=True))
        cells = [others[i] for i in idx]
        zero = draw(st.sampled_from([True, False, False, False]))
        mod = 0.0 if zero else radius * 10.0 ** (-draw(st.integers(3, 16)) - draw(_floats(0.0, 1.0)))
        ph = draw(_floats(0.0, 2 * math.pi))
        eigs.append([mod * math.cos(ph), mod * math.sin(ph)])
    else:
        cells = draw(st.lists(st.integers(0, m * m - 1), min_size=dim, max_size=dim, unique=True))
    for c in cells:
        ix, iy = divmod(c, m)
        jx = draw(_floats(-1.0, 1.0)) * cell / 3.0
        jy = draw(_floats(-1.0, 1.0)) * cell / 3.0
        eigs.append([-half + (ix + 0.5) * cell + jx, -half + (iy + 0.5) * cell + jy])
    sv = [1.0] + [math.exp(draw(_floats(0.0, math.log(kappa)))) for _ in range(dim - 2)] + [kappa]
    npairs = dim * (dim - 1) // 2
    ang = lambda: [[draw(_floats(0.0, math.pi / 2)), draw(_floats(0.0, 2 * math.pi))] for _ in range(npairs)]  # noqa: E731
    return {"dim": dim, "eigs": eigs, "sv": sv, "u1": ang(), "u2": ang(), "cell": cell}


def unitary(dim, angles):
    import numpy as np

    u = np.eye(dim, dtype=np.complex128)
    k = 0
    for i in range(dim):
        for j in range(i + 1, dim):
            th, ph = angles[k]
            k += 1
            g = np.eye(dim, dtype=np.complex128)
            c, s = math.cos(th), math.sin(th)
            e = complex(math.cos(ph), math.sin(ph))
            g[i, i] = c
            g[j, j] = c
            g[i, j] = -s * e
            g[j, i] = s * e.conjugate()
            u = u @ g
    return u


def materialise(case):
    """-> (M, V, eigenvalues, kappa)."""
    import numpy as np

    dim = case["dim"]
    lam = np.array([complex(z[0], z[1]) for z in case["eigs"]])
    v = unitary(dim, case["u1"]) @ np.diag(np.array(case["sv"], dtype=float)) @ unitary(dim, case["u2"])
    vinv = unitary(dim, case["u2"]).conj().T @ np.diag(1.0 / np.array(case["sv"], dtype=float)) @ unitary(dim, case["u1"]).conj().T
    m = v @ np.diag(lam) @ vinv
    return np.ascontiguousarray(m), v, lam, float(max(case["sv"]) / min(case["sv"]))


# ----------------------------------------------------------------------------- matrices next to special classes

FAMILIES = ["hermitian", "symmetric", "normal", "diagonal", "triangular"]


def _line_lattice(draw, dim, radius, min_sep):
    """dim real points in [-radius, radius], pairwise distance >= min_sep by construction."""
    cell = max(3.0 * min_sep, 2.0 * radius / 40)
    m = max(dim, int(math.floor(2.0 * radius / cell)))
    cell = 2.0 * radius / m
    if cell < 3.0 * min_sep:
        raise ValueError("_line_lattice: interval too small")
    cells = draw(st.lists(st.integers(0, m - 1), min_size=dim, max_size=dim, unique=True))
    return [[-radius + (c + 0.5) * cell + draw(_floats(-1.0, 1.0)) * cell / 3.0, 0.0] for c in cells]


@st.composite
def near_special_case(draw, dim):
    """Special matrix S (Hermitian / real symmetric / normal / diagonal / upper triangular) plus a generic complex
    perturbation of relative size eps in [1e-12, 1e-3] (or exactly 0): M = S + eps ||S||_2 / dim * P, |P_ij| <= 1,
    hence ||M - S||_2 <= eps ||S||_2.  Eigenvalues of S are >= 0.2 apart by construction, |lambda| <= 45 (<= 5 for
    the triangular family whose eigenvector matrix is unit upper triangular with |v_ij| <= 0.5)."""
    fam = draw(st.sampled_from(FAMILIES))
    npairs = dim * (dim - 1) // 2
    case = {"dim": dim, "family": fam}
    if fam in ("hermitian", "symmetric"):
        case["eigs"] = _line_lattice(draw, dim, 45.0, 0.2)
    else:
        radius = 5.0 if fam == "triangular" else 45.0
        sc = draw(spectral_case(dim, kappa_max=1.0, norm_max=radius, min_sep=0.2))
        case["eigs"] = sc["eigs"]
    if fam in ("hermitian", "normal"):
        case["u"] = [[draw(_floats(0.0, math.pi / 2)), draw(_floats(0.0, 2 * math.pi))] for _ in range(npairs)]
    elif fam == "symmetric":
        case["u"] = [[draw(_floats(0.0, math.pi / 2)), 0.0] for _ in range(npairs)]
    elif fam == "triangular":
        case["upper"] = [
            [draw(_floats(0.0, 0.5)), draw(_floats(0.0, 2 * math.pi))] for _ in range(npairs)
        ]
    exact = draw(st.sampled_from([False] * 7 + [True]))
    case["eps"] = 0.0 if exact else 10.0 ** (-draw(st.integers(3, 11)) - draw(_floats(0.0, 1.0)))
    case["pert"] = [[draw(_floats(0.0, 1.0)), draw(_floats(0.0, 2 * math.pi))] for _ in range(dim * dim)]
    return case


def materialise_near(case):
    """-> (M, S) as contiguous complex arrays."""
    import numpy as np

    dim, fam = case["dim"], case["family"]
    lam = np.array([complex(z[0], z[1]) for z in case["eigs"]])
    if fam == "diagonal":
        s = np.diag(lam)
    elif fam == "triangular":
        v = np.eye(dim, dtype=np.complex128)
        k = 0
        for i in range(dim):
            for j in range(i + 1, dim):
                r, ph = case["upper"][k]
                k += 1
                v[i, j] = r * complex(math.cos(ph), math.sin(ph))
        s = np.triu(v @ np.diag(lam) @ np.linalg.inv(v))
    else:
        u = unitary(dim, case["u"])
        s = u @ np.diag(lam) @ u.conj().T
        if fam == "hermitian":
            s = (s + s.conj().T) / 2
        elif fam == "symmetric":
            s = s.real.astype(np.complex128)
            s = (s + s.T) / 2
    p = np.array([r * complex(math.cos(ph), math.sin(ph)) for r, ph in case["pert"]]).reshape(dim, dim)
    m = s + case["eps"] * np.linalg.norm(s, 2) / dim * p
    return np.ascontiguousarray(m), np.ascontiguousarray(s)

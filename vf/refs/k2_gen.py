"""Common generator of engine K (solution kernels) used by C08 / C09 / C12 -- DESIGN section 4.

Cases are plain JSON.  A *tower* is one of

    {"kind": "generic",   "g":   [ 2x2 matrix of [re, im] ] * n}            generic, non-commuting
    {"kind": "diag",      "eig": [ [x_k, y_k] ] * n}                         diagonal matrices diag(x_k, y_k)
    {"kind": "commuting", "eig": [ [x_k, y_k] ] * n, "v": [v1, v2]}          V diag(x_k, y_k) V^-1, V = [[1, v1], [v2, 1]]
    {"kind": "scalar",    "g":   [ [re, im] ] * n}                           non-singlet

with |gamma_k| <~ 10^k (entries drawn in an annulus 0.02*10^k .. 10^k so that no entry is exactly zero; eigenvalue
pairs are built as y_k = x_k + sep_k with |sep_k| in [0.15, 1]*10^k so that they are distinct by construction).
"""

import math

import numpy as np
from hypothesis import strategies as st

from vf import strategies as S

RMIN = 0.02


def _entry(k):
    return S.complex_disc(10.0**k, RMIN * 10.0**k)


def scalar_tower(n):
    return st.tuples(*[_entry(k) for k in range(n)]).map(lambda t: {"kind": "scalar", "g": list(t)})


def generic_tower(n):
    mat = lambda k: st.tuples(_entry(k), _entry(k), _entry(k), _entry(k)).map(  # noqa: E731
        lambda t: [[t[0], t[1]], [t[2], t[3]]]
    )
    return st.tuples(*[mat(k) for k in range(n)]).map(lambda t: {"kind": "generic", "g": list(t)})


def _eig_pairs(n):
    # y_k = x_k + sep_k with |sep_k| in [0.15, 1] x 10^k: distinct eigenvalues by construction
    # (relative gap |x-y| / sqrt(|x|^2+|y|^2) >= 0.15 / sqrt(1 + 4) = 6.7 %)
    def pair(k):
        return st.tuples(_entry(k), S.complex_disc(10.0**k, 0.15 * 10.0**k)).map(
            lambda t: [t[0], [t[0][0] + t[1][0], t[0][1] + t[1][1]]]
        )

    return st.tuples(*[pair(k) for k in range(n)]).map(list)


def diag_tower(n):
    return _eig_pairs(n).map(lambda e: {"kind": "diag", "eig": e})


def commuting_tower(n):
    # |v1 v2| <= 0.49  =>  |det V| = |1 - v1 v2| >= 0.51: well conditioned by construction
    v = st.tuples(S.complex_disc(0.7, 0.1), S.complex_disc(0.7, 0.1)).map(list)
    return st.tuples(_eig_pairs(n), v).map(lambda t: {"kind": "commuting", "eig": t[0], "v": t[1]})


def build(tower):
    """tower (JSON) -> complex ndarray of shape (n,) [scalar] or (n, 2, 2)."""
    kind = tower["kind"]
    if kind == "scalar":
        return np.array([S.c(z) for z in tower["g"]], dtype=np.complex128)
    if kind == "generic":
        return np.array([[[S.c(z) for z in row] for row in m] for m in tower["g"]], dtype=np.complex128)
    eig = [(S.c(p[0]), S.c(p[1])) for p in tower["eig"]]
    if kind == "diag":
        return np.array([np.diag([x, y]) for x, y in eig], dtype=np.complex128)
    if kind == "commuting":
        v1, v2 = S.c(tower["v"][0]), S.c(tower["v"][1])
        V = np.array([[1.0, v1], [v2, 1.0]], dtype=np.complex128)
        Vi = np.linalg.inv(V)
        return np.array([V @ np.diag([x, y]) @ Vi for x, y in eig], dtype=np.complex128)
    raise ValueError(kind)


def eig_gap(m):
    """relative eigenvalue gap of a 2x2 matrix: |lambda_+ - lambda_-| / ||m|| (0 for the zero matrix)."""
    m = np.asarray(m)
    nrm = float(np.sqrt(np.sum(np.abs(m) ** 2)))
    if nrm == 0:
        return 0.0
    det = np.sqrt((m[0, 0] - m[1, 1]) ** 2 + 4.0 * m[0, 1] * m[1, 0])
    return float(abs(det)) / nrm


def couplings(min_log_ratio=0.05):
    """[a0, a1] in [0.002, 0.05], either order."""
    return S.coupling_pair(0.002, 0.05, min_log_ratio)


def log_ratio(a):
    return abs(math.log(a[1] / a[0]))

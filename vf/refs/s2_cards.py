"""Card settings strategies and structural comparison shared by C40 / C41 (engine S).

A *settings* dict is flat, plain JSON (see ``st_settings``); ``raw_theory`` / ``raw_operator`` turn it into the raw
dictionaries of the current format; cards are then built through ``TheoryCard.from_dict`` / ``OperatorCard.from_dict``.
"""

from __future__ import annotations

import dataclasses
import enum
import math

import numpy as np

METHODS = [
    "iterate-exact", "iterate-expanded", "perturbative-exact", "perturbative-expanded", "truncated",
    "ordered-truncated", "decompose-exact", "decompose-expanded",
]
ABSENT = "absent"


def _name(value):
    return value.upper().replace("-", "_")


# ----------------------------------------------------------------------------- strategies


def st_grid():
    """(nodes, degree): explicit jittered log grids, make_grid / lambertgrid / geomspace / linspace lists."""
    from hypothesis import strategies as st

    @st.composite
    def build(draw):
        from eko import interpolation

        kind = draw(st.sampled_from(["jitter", "jitter", "make_grid", "lambert", "geom", "lin"]))
        if kind == "jitter":
            n = draw(st.integers(2, 9))
            xmin = 10 ** draw(st.floats(-7, -0.5))
            steps = np.cumsum([draw(st.floats(0.5, 1.7)) for _ in range(n - 1)])
            xs = [float(xmin ** (1 - s / steps[-1])) for s in steps]
            xs = [float(xmin)] + xs[:-1] + [1.0]
        elif kind == "make_grid":
            xs = interpolation.make_grid(draw(st.integers(1, 5)), draw(st.integers(1, 5)),
                                         x_min=10 ** draw(st.floats(-7, -2))).tolist()
        elif kind == "lambert":
            xs = interpolation.lambertgrid(draw(st.integers(3, 10)), x_min=10 ** draw(st.floats(-7, -2))).tolist()
        elif kind == "geom":
            xs = np.geomspace(10 ** draw(st.floats(-7, -1)), 1.0, draw(st.integers(2, 10))).tolist()
        else:
            xs = np.linspace(draw(st.floats(0.01, 0.5)), 1.0, draw(st.integers(2, 10))).tolist()
        xs = sorted(set(float(x) for x in xs))
        deg = draw(st.integers(1, min(5, len(xs) - 1)))
        return kind, xs, deg

    return build()


def st_settings():
    """Flat card settings over all enum values, orders, schemes, grids, N3LO variations, optional fields."""
    from hypothesis import strategies as st

    fl = lambda lo, hi: st.one_of(st.floats(lo, hi), st.sampled_from([lo, hi]))  # noqa: E731

    @st.composite
    def build(draw):
        qcd, qed = draw(st.integers(1, 4)), draw(st.integers(0, 2))
        mc, mb, mt = draw(fl(1.2, 2.0)), draw(fl(4.0, 5.5)), draw(fl(150.0, 180.0))
        scheme = draw(st.sampled_from(["POLE", "MSBAR"]))
        gkind, xs, deg = draw(st_grid())
        npts = draw(st.integers(1, 4))
        s = dict(
            order=[qcd, qed],
            alphas=draw(fl(0.08, 0.4)),
            alphaem=draw(fl(0.005, 0.01)),
            ref=[draw(fl(1.5, 200.0)), draw(st.integers(3, 6))],
            em_running=draw(st.booleans()),
            masses=[mc, mb, mt],
            scheme=scheme,
            mass_refs=[draw(fl(1.0, 3.0)), draw(fl(3.0, 6.0)), draw(fl(100.0, 200.0))] if scheme == "MSBAR" else None,
            ratios=[draw(fl(0.5, 2.0)) for _ in range(3)],
            xif=draw(st.one_of(st.just(1.0), fl(0.5, 2.0))),
            n3lo=[draw(st.integers(0, 3)) for _ in range(7)] if draw(st.booleans()) else [0] * 7,
            use_fhmruvv=draw(st.sampled_from([True, False, ABSENT])),
            matching_order=draw(st.sampled_from([ABSENT, None, [qcd - 1, 0], [max(qcd - 2, 0), 0]])),
            init=[draw(fl(1.0, 100.0)), draw(st.integers(3, 6))],
            mugrid=[[draw(fl(1.0, 1000.0)), draw(st.integers(3, 6))] for _ in range(npts)],
            grid_kind=gkind,
            xgrid=xs,
            deg=deg,
            is_log=draw(st.sampled_from([True, True, False])),
            method=draw(st.sampled_from(METHODS)),
            max_order=[draw(st.integers(1, 20)), draw(st.integers(0, 2))],
            iters=draw(st.integers(1, 30)),
            sv=draw(st.sampled_from([None, "exponentiated", "expanded"])),
            inv=draw(st.sampled_from([None, "exact", "expanded"])),
            cores=draw(st.sampled_from([ABSENT, 1, 2, 8])),
            pol=draw(st.booleans()),
            tl=draw(st.booleans()),
            skip_singlet=draw(st.booleans()),
            skip_non_singlet=draw(st.booleans()),
            eko_version=draw(st.sampled_from([ABSENT, ABSENT, "0.0.0", "0.15.1"])),
            enum_by_name=draw(st.booleans()),
        )
        return s

    return build()


def raw_theory(s):
    nan = float("nan")
    en = (lambda v: _name(v)) if s["enum_by_name"] else (lambda v: v.lower())
    th = dict(
        order=list(s["order"]),
        couplings=dict(alphas=s["alphas"], alphaem=s["alphaem"], ref=list(s["ref"]), em_running=s["em_running"]),
        heavy=dict(
            masses=[[m, nan if s["scheme"] == "POLE" else s["mass_refs"][i]] for i, m in enumerate(s["masses"])],
            masses_scheme=en(s["scheme"]),
            matching_ratios=list(s["ratios"]),
        ),
        xif=s["xif"],
        n3lo_ad_variation=list(s["n3lo"]),
    )
    if s["use_fhmruvv"] != ABSENT:
        th["use_fhmruvv"] = s["use_fhmruvv"]
    if s["matching_order"] != ABSENT:
        th["matching_order"] = None if s["matching_order"] is None else list(s["matching_order"])
    return th


def raw_operator(s):
    en = (lambda v: v if v is None else _name(v)) if s["enum_by_name"] else (lambda v: v)
    cfg = dict(
        evolution_method=en(s["method"]),
        ev_op_max_order=list(s["max_order"]),
        ev_op_iterations=s["iters"],
        interpolation_polynomial_degree=s["deg"],
        interpolation_is_log=s["is_log"],
        scvar_method=en(s["sv"]),
        inversion_method=en(s["inv"]),
        polarized=s["pol"],
        time_like=s["tl"],
    )
    if s["cores"] != ABSENT:
        cfg["n_integration_cores"] = s["cores"]
    op = dict(
        init=list(s["init"]),
        mugrid=[list(p) for p in s["mugrid"]],
        xgrid=list(s["xgrid"]),
        configs=cfg,
        debug=dict(skip_singlet=s["skip_singlet"], skip_non_singlet=s["skip_non_singlet"]),
    )
    if s["eko_version"] != ABSENT:
        op["eko_version"] = s["eko_version"]
    return op


# ----------------------------------------------------------------------------- numpy leaves

NP_MAKERS = {
    "float64": lambda v: np.float64(v),
    "float32": lambda v: np.float32(v),
    "arr0": lambda v: np.array(v),
    "int64": lambda v: np.int64(v),
    "int32": lambda v: np.int32(v),
    "bool_": lambda v: np.bool_(v),
    "str_": lambda v: np.str_(v),
}
NP_FOR = {"float": ["float64", "float64", "float32", "arr0"], "int": ["int64", "int64", "int32", "arr0"], "bool": ["bool_"],
          "str": ["str_"]}


def leaf_paths(raw, prefix=()):
    """All (path, kind) of int / float / bool leaves of a raw dictionary."""
    out = []
    if isinstance(raw, dict):
        for k, v in raw.items():
            out += leaf_paths(v, prefix + (k,))
    elif isinstance(raw, (list, tuple)):
        for i, v in enumerate(raw):
            out += leaf_paths(v, prefix + (i,))
    elif isinstance(raw, bool):
        out.append((list(prefix), "bool"))
    elif isinstance(raw, int):
        out.append((list(prefix), "int"))
    elif isinstance(raw, float) and not math.isnan(raw):
        out.append((list(prefix), "float"))
    return out


def get_path(obj, path):
    for p in path:
        obj = obj[p] if isinstance(p, int) or isinstance(obj, dict) else getattr(obj, p)
    return obj


def set_path(obj, path, value):
    """Set a leaf of a nested dict / list / tuple / dataclass structure (tuples are rebuilt)."""
    if len(path) == 1:
        p = path[0]
        if isinstance(obj, tuple):
            return tuple(value if i == p else x for i, x in enumerate(obj))
        if isinstance(p, int) or isinstance(obj, dict):
            obj[p] = value
        else:
            setattr(obj, p, value)
        return obj
    p = path[0]
    child = obj[p] if isinstance(p, int) or isinstance(obj, dict) else getattr(obj, p)
    new = set_path(child, path[1:], value)
    if isinstance(obj, tuple):
        return tuple(new if i == p else x for i, x in enumerate(obj))
    if new is not child:
        if isinstance(p, int) or isinstance(obj, dict):
            obj[p] = new
        else:
            setattr(obj, p, new)
    return obj


# ----------------------------------------------------------------------------- plain data / comparison

PLAIN = (dict, list, str, int, float, bool, type(None))


def non_plain(raw, prefix=(), inside=()):
    """[(path, type name, containers on the way in the *object* sense)] of leaves a safe YAML dumper refuses."""
    out = []
    if type(raw) is dict:
        for k, v in raw.items():
            if type(k) is not str:
                out.append((prefix + (k,), f"key:{type(k).__name__}"))
            out += non_plain(v, prefix + (k,))
    elif type(raw) is list:
        for i, v in enumerate(raw):
            out += non_plain(v, prefix + (i,))
    elif type(raw) not in PLAIN:
        out.append((prefix, f"{type(raw).__module__}.{type(raw).__name__}"))
    return out


def plain_equal(a, b):
    """Equality of plain data with nan == nan and exact types (bool != int != float)."""
    if type(a) is not type(b):
        return False
    if isinstance(a, dict):
        return a.keys() == b.keys() and all(plain_equal(a[k], b[k]) for k in a)
    if isinstance(a, list):
        return len(a) == len(b) and all(plain_equal(x, y) for x, y in zip(a, b))
    if isinstance(a, float):
        return a == b or (math.isnan(a) and math.isnan(b))
    return a == b


def _norm_leaf(x):
    if isinstance(x, np.generic):
        return x.item()
    if isinstance(x, np.ndarray) and x.ndim == 0:
        return x.item()
    return x


def differences(a, b, path="", array_fields=True):
    """Field-by-field differences between an original structure ``a`` and the reloaded ``b``.

    numpy scalars / 0-d arrays in ``a`` count by value; arrays compare by shape, dtype kind and value; XGrid by nodes
    and log flag; containers must keep their class (tuple, list, ReferenceRunning, ...)."""
    from eko import interpolation

    out = []
    if isinstance(a, interpolation.XGrid) or isinstance(b, interpolation.XGrid):
        if not (isinstance(a, interpolation.XGrid) and isinstance(b, interpolation.XGrid)):
            return [f"{path}: {type(a).__name__} vs {type(b).__name__}"]
        if a.raw.shape != b.raw.shape or not np.array_equal(a.raw, b.raw):
            out.append(f"{path}: xgrid nodes differ")
        if bool(a.log) != bool(b.log):
            out.append(f"{path}: xgrid log flag {a.log} -> {b.log}")
        return out
    if isinstance(a, np.ndarray) and a.ndim > 0:
        if not isinstance(b, np.ndarray):
            return [f"{path}: ndarray -> {type(b).__name__}"]
        if a.shape != b.shape or a.dtype.kind != b.dtype.kind or not np.array_equal(a, b, equal_nan=a.dtype.kind == "f"):
            out.append(f"{path}: array {a.dtype}{a.shape} -> {b.dtype}{b.shape} (values equal: "
                       f"{a.shape == b.shape and bool(np.array_equal(a, b))})")
        return out
    a = _norm_leaf(a)
    if dataclasses.is_dataclass(a) and not isinstance(a, type):
        if type(a) is not type(b):
            return [f"{path}: {type(a).__name__} -> {type(b).__name__}"]
        for f in dataclasses.fields(a):
            out += differences(getattr(a, f.name), getattr(b, f.name), f"{path}.{f.name}")
        return out
    if isinstance(a, enum.Enum):
        return [] if a is b else [f"{path}: {a!r} -> {b!r}"]
    if isinstance(a, dict):
        if not isinstance(b, dict) or a.keys() != b.keys():
            return [f"{path}: dict keys {sorted(a)} -> {sorted(b) if isinstance(b, dict) else type(b).__name__}"]
        for k in a:
            out += differences(a[k], b[k], f"{path}[{k!r}]")
        return out
    if isinstance(a, (list, tuple)):
        if type(a) is not type(b):
            return [f"{path}: container {type(a).__name__} -> {type(b).__name__}"]
        if len(a) != len(b):
            return [f"{path}: length {len(a)} -> {len(b)}"]
        for i, (x, y) in enumerate(zip(a, b)):
            out += differences(x, y, f"{path}[{i}]")
        return out
    if type(a) is not type(b):
        return [f"{path}: {type(a).__name__} {a!r} -> {type(b).__name__} {b!r}"]
    if isinstance(a, float):
        if not (a == b or (math.isnan(a) and math.isnan(b))):
            out.append(f"{path}: {a!r} -> {b!r}")
        return out
    if a != b:
        out.append(f"{path}: {a!r} -> {b!r}")
    return out

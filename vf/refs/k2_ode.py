"""Independent references for the solution-kernel checks C08 / C09 / C12.

Nothing in this file imports eko.  The defining equation is the one of doc/source/theory/DGLAP.rst,

    d/da E(a <- a0) = [ sum_k gamma_k a^(k+1) ] / [ sum_k beta_k a^(k+2) ] . E ,   E(a0 <- a0) = 1 ,

(k = 0 .. n-1 at perturbative order n; gamma = -M[P] and beta_k > 0, so that the two minus signs of
``-gamma/beta`` cancel: at LO the solution is exp(gamma_0 ln(a/a0)/beta_0), the closed form given in the docs).
The beta coefficients come from the literature table typed in ``c20_coefficients`` (Herzog et al. 2017), not from
``eko.beta``.
"""

import math

import numpy as np

from vf.props.c20_coefficients import BETA_QCD, ref_value

_BETA_CACHE = {}


def beta_qcd(nf, n):
    """[beta_0 .. beta_{n-1}] as floats (a = alpha_s/4pi normalisation)."""
    key = (nf, n)
    if key not in _BETA_CACHE:
        _BETA_CACHE[key] = [float(ref_value(f"beta_qcd:{k + 2},0", nf, 3)) for k in range(n)]
    return _BETA_CACHE[key]


def beta_qcd_mix(nf):
    """beta^(2,1): coefficient of a_s^2 a_em in the QCD beta function (Surguladze 1996)."""
    key = ("mix", nf)
    if key not in _BETA_CACHE:
        _BETA_CACHE[key] = float(ref_value("beta_qcdx:2,1", nf, 3))
    return _BETA_CACHE[key]


# ------------------------------------------------------------------------------------------------ non-singlet


def ns_exact(gammas, a1, a0, nf):
    """exp( int_{a0}^{a1} gamma(a)/beta(a) da ) by 30-digit quadrature; gammas = [gamma_0..gamma_{n-1}] complex."""
    import mpmath as mp

    n = len(gammas)
    bet = [mp.mpf(b) for b in beta_qcd(nf, n)]
    gam = [mp.mpc(g) for g in gammas]
    with mp.workdps(30):

        def f(t):  # t = ln a ; integrand a*gamma(a)/beta(a) = sum gamma_k a^k / sum beta_k a^k
            a = mp.e**t
            num = sum(g * a**k for k, g in enumerate(gam))
            den = sum(b * a**k for k, b in enumerate(bet))
            return num / den

        val = mp.quad(f, [mp.log(mp.mpf(a0)), mp.log(mp.mpf(a1))])
        return complex(mp.exp(val))


# ------------------------------------------------------------------------------------------------ matrix ODE


def _solve(rhs_matrix, t0, t1, dim, rtol=1e-13, atol=1e-15):
    """Path-ordered exponential of dE/dt = M(t) E from t0 to t1 (E(t0)=1), DOP853 on the flattened complex system."""
    from scipy.integrate import solve_ivp

    def rhs(t, y):
        return (rhs_matrix(t) @ y.reshape(dim, dim)).reshape(-1)

    y0 = np.eye(dim, dtype=np.complex128).reshape(-1)
    if t0 == t1:
        return y0.reshape(dim, dim)
    sol = solve_ivp(rhs, (t0, t1), y0, method="DOP853", rtol=rtol, atol=atol)
    if not sol.success:
        raise RuntimeError(f"reference ODE failed: {sol.message}")
    return sol.y[:, -1].reshape(dim, dim)


def singlet_ode(gammas, a1, a0, nf):
    """Path-ordered solution for a QCD tower gammas[k] (dim x dim complex), integrated in t = ln a."""
    gammas = [np.asarray(g, dtype=np.complex128) for g in gammas]
    n = len(gammas)
    dim = gammas[0].shape[0]
    bet = beta_qcd(nf, n)

    def m(t):
        a = math.exp(t)
        num = sum(g * a**k for k, g in enumerate(gammas))
        den = sum(b * a**k for k, b in enumerate(bet))
        return num / den

    return _solve(m, math.log(a0), math.log(a1), dim)


def qed_ode(gamma, a1, a0, aem_of_a, nf):
    """Path-ordered solution of the mixed QCD x QED equation (DGLAP.rst, 'Mixed QCD x QED evolution').

    gamma[i][j] (dim x dim) multiplies a_s^i a_em^j, i = 0..o_s, j = 0..o_em;
    beta(a_s, a_em) = sum_{i>=1} beta_{i-1} a_s^(i+1) + beta^(2,1) a_s^2 a_em; a_em = aem_of_a(a_s).
    """
    gamma = np.asarray(gamma, dtype=np.complex128)
    o_s, o_em = gamma.shape[0] - 1, gamma.shape[1] - 1
    dim = gamma.shape[2]
    bet = beta_qcd(nf, o_s)
    mix = beta_qcd_mix(nf) if (o_s >= 1 and o_em >= 1) else 0.0

    def m(t):
        a = math.exp(t)
        aem = aem_of_a(a)
        num = np.zeros((dim, dim), dtype=np.complex128)
        for i in range(o_s + 1):
            for j in range(o_em + 1):
                num += gamma[i, j] * a**i * aem**j
        den = sum(b * a ** (k + 2) for k, b in enumerate(bet)) + mix * a**2 * aem
        return num * a / den  # d/dt = a d/da

    return _solve(m, math.log(a0), math.log(a1), dim)


# ------------------------------------------------------------------------------------------------ helpers


def cmat(m):
    """nested [[re, im]] lists -> complex ndarray."""
    arr = np.asarray(m, dtype=float)
    return arr[..., 0] + 1j * arr[..., 1]


def fro(m):
    return float(np.sqrt(np.sum(np.abs(np.asarray(m)) ** 2)))


def commutator_size(g0, g1):
    """||[g0,g1]|| / (||g0|| ||g1||)."""
    d = fro(g0) * fro(g1)
    if d == 0:
        return 0.0
    return fro(g0 @ g1 - g1 @ g0) / d


# ------------------------------------------------------------------------------------------------ QED inputs


def qed_setup(case):
    """Build the inputs of the QED iterated kernels the way the caller (Operator.compute_aem_list) does.

    The scale variable is t = ln(mu^2/mu0^2); the strong coupling runs at LO, 1/a_s(t) = 1/a0 + beta_0 t (literature
    beta_0), so that a_s goes from a0 to a1 for t in [0, T]; a_em(t) = aem0 exp(kappa t / T) (kappa = 0: fixed
    alpha_em).  Steps are geometric in mu^2 (uniform in t) and ``a_half`` holds both couplings at the *arithmetic*
    mid-point of mu^2, exactly as compute_aem_list does.

    Returns dict(gamma, steps(its) -> (as_list, a_half), aem_of_a, T, beta0).
    """
    nf = case["nf"]
    a0, a1 = case["a"]
    o_s, o_em = case["order"]
    dim = case["dim"]
    aem0, kappa = case["aem0"], case["kappa"]
    beta0 = beta_qcd(nf, 1)[0]
    T = (1.0 / a1 - 1.0 / a0) / beta0

    def a_of_t(t):
        return a0 / (1.0 + a0 * beta0 * t)

    def aem_of_t(t):
        return aem0 * math.exp(kappa * t / T)

    def aem_of_a(a):
        return aem_of_t((1.0 / a - 1.0 / a0) / beta0)

    rng = np.random.default_rng(int(case["seed"]))
    gamma = np.zeros((o_s + 1, o_em + 1, dim, dim), dtype=np.complex128)
    for i in range(o_s + 1):
        for j in range(o_em + 1):
            if i + j == 0:
                continue
            mag = rng.uniform(0.02, 1.0, size=(dim, dim)) * 10.0 ** (i + j - 1)
            gamma[i, j] = mag * np.exp(2j * math.pi * rng.uniform(size=(dim, dim)))

    def steps(its):
        delta = T / its
        t_edges = [k * delta for k in range(its + 1)]
        as_list = np.array([a_of_t(t) for t in t_edges])
        as_list[-1] = a1
        # arithmetic mid-point of mu^2 between exp(t_l) and exp(t_l + delta)
        shift = math.log((1.0 + math.exp(delta)) / 2.0)
        a_half = np.array([[a_of_t(t + shift), aem_of_t(t + shift)] for t in t_edges[:-1]])
        return as_list, a_half

    return dict(gamma=gamma, steps=steps, aem_of_a=aem_of_a, T=T, beta0=beta0)


# ------------------------------------------------------------------------------------------------ mid-point rule


def qcd_generator(gammas, nf):
    """a -> F(a) = gamma(a)/beta(a) (per unit a), matrix valued (scalars become 1x1)."""
    gam = [np.atleast_2d(np.asarray(g, dtype=np.complex128)) for g in gammas]
    bet = beta_qcd(nf, len(gam))

    def F(a):
        return sum(g * a**k for k, g in enumerate(gam)) / sum(b * a ** (k + 1) for k, b in enumerate(bet))

    return F


def midpoint_error_estimate(F, edges, nodes=None):
    """Leading local-error sum of the exponential mid-point rule for dE/da = F(a) E on the given step edges.

    One step of exp(F(a_mid) da) differs from the exact propagator by da^3 (F''/24 + [F', F]/12) + O(da^5), so the
    accumulated error of the logarithm is bounded, to leading order, by
        sum_steps |da|^3 ( ||F''(a_mid)||/24 + ||F'(a_mid)|| ||F(a_mid)||/6 ).
    If the generator is evaluated at ``nodes[k]`` instead of the centre of step k (QED kernels: coupling at the
    mid-point of mu^2), the first-order term |nodes[k] - a_mid| |da| ||F'(a_mid)|| is added.
    Derivatives by central differences of the (smooth) generator.
    """
    tot = 0.0
    for k, (al, ah) in enumerate(zip(edges[:-1], edges[1:])):
        am = 0.5 * (al + ah)
        da = abs(ah - al)
        eps = 1e-3 * am
        f0, fp, fm = F(am), F(am + eps), F(am - eps)
        d1 = (fp - fm) / (2 * eps)
        d2 = (fp - 2 * f0 + fm) / (eps * eps)
        tot += da**3 * (fro(d2) / 24.0 + fro(d1) * fro(f0) / 6.0)
        if nodes is not None:
            tot += abs(nodes[k] - am) * da * fro(d1)
    return tot


def qed_generator(gamma, aem_of_a, nf):
    """a -> F(a) = gamma(a, a_em(a)) / beta(a, a_em(a)) per unit a_s for the mixed QCD x QED equation."""
    gamma = np.asarray(gamma, dtype=np.complex128)
    o_s, o_em = gamma.shape[0] - 1, gamma.shape[1] - 1
    bet = beta_qcd(nf, o_s)
    mix = beta_qcd_mix(nf)

    def F(a):
        aem = aem_of_a(a)
        num = sum(gamma[i, j] * a**i * aem**j for i in range(o_s + 1) for j in range(o_em + 1))
        den = sum(b * a ** (k + 2) for k, b in enumerate(bet)) + mix * a * a * aem
        return num / den

    return F


# ------------------------------------------------------------------------------------------------ short distances


def singlet_ode_minus_one(gammas, a1, a0, nf):
    """D = E(a1 <- a0) - 1 for a QCD tower, accurate *relative to D* also for |a1 - a0| << a0.

    Integrates dD/ds = M(s) (1 + D), D(0) = 0, in s = ln(a/a0) up to ln(a1/a0) = log1p((a1 - a0)/a0), so that
    neither the interval nor the result is obtained as a difference of O(1) numbers.
    """
    from scipy.integrate import solve_ivp

    gammas = [np.asarray(g, dtype=np.complex128) for g in gammas]
    n = len(gammas)
    dim = gammas[0].shape[0]
    bet = beta_qcd(nf, n)
    s1 = math.log1p((a1 - a0) / a0)
    eye = np.eye(dim, dtype=np.complex128)

    def rhs(s, y):
        a = a0 * math.exp(s)
        m = sum(g * a**k for k, g in enumerate(gammas)) / sum(b * a**k for k, b in enumerate(bet))
        return (m @ (eye + y.reshape(dim, dim))).reshape(-1)

    if s1 == 0.0:
        return np.zeros((dim, dim), dtype=np.complex128)
    sol = solve_ivp(rhs, (0.0, s1), np.zeros(dim * dim, dtype=np.complex128), method="DOP853", rtol=1e-13, atol=1e-30)
    if not sol.success:
        raise RuntimeError(f"reference ODE failed: {sol.message}")
    return sol.y[:, -1].reshape(dim, dim)

"""C14 / C51 reference: the truncated renormalisation group equations, integrated numerically.

Conventions (doc/source/theory/pQCD.rst): a = alpha/(4 pi), t = ln mu^2,

    da_s /dt = - a_s^2  ( sum_{k<n} beta_k a_s^k + [m>=1] beta^(2,1) a_em )
    da_em/dt = - a_em^2 ( sum_{k<m} beta^(0,2+k) a_em^k + [m>=1] beta^(1,2) a_s )      (alpha_em running)
    da_em/dt = 0                                                                     (alpha_em fixed)

integrated with scipy DOP853 at rtol 1e-13.  The beta *coefficients* are taken from ``eko.beta`` (their values are
decided by C20); everything else (the differential equation, its truncation, the evaluation points) is written here
from the documentation, and no coupling code of eko (``eko.couplings``, ``Operator.compute_a``) is used.
"""

from __future__ import annotations

import math

import numpy as np

RTOL = 1e-13


def beta_coeffs(order, nf, nl=3, running=False):
    from eko import beta

    n, m = order
    bs = [float(beta.beta_qcd((2 + i, 0), nf)) for i in range(n)]
    mix_s = float(beta.beta_qcd((2, 1), nf)) if m >= 1 else 0.0
    be, mix_e = [], 0.0
    if m >= 1 and running:
        be = [float(beta.beta_qed((0, 2 + j), nf, nl)) for j in range(m)]
        mix_e = float(beta.beta_qed((1, 2), nf, nl))
    return bs, mix_s, be, mix_e


def _rhs(bs, mix_s, be, mix_e):
    def f(_t, y):
        a, e = y
        ds = -a * a * (sum(b * a**k for k, b in enumerate(bs)) + mix_s * e)
        de = -e * e * (sum(b * e**k for k, b in enumerate(be)) + mix_e * a) if be else 0.0
        return [ds, de]

    return f


class Trajectory:
    """(a_s, a_em)(t) through (a_s0, a_em0) at t = 0, available on [t_lo, t_hi] (dense DOP853 output)."""

    def __init__(self, order, nf, a_s0, a_em0=0.0, running=False, nl=3, t_lo=0.0, t_hi=0.0):
        from scipy.integrate import solve_ivp

        self.f = _rhs(*beta_coeffs(order, nf, nl, running))
        self.y0 = [float(a_s0), float(a_em0)]
        self.t_lo, self.t_hi = min(t_lo, 0.0), max(t_hi, 0.0)
        self.fwd = self.bwd = None
        if self.t_hi > 0:
            self.fwd = solve_ivp(self.f, (0.0, self.t_hi), self.y0, method="DOP853", rtol=RTOL, atol=1e-30, dense_output=True)
            if not self.fwd.success:
                raise ArithmeticError(self.fwd.message)
        if self.t_lo < 0:
            self.bwd = solve_ivp(self.f, (0.0, self.t_lo), self.y0, method="DOP853", rtol=RTOL, atol=1e-30, dense_output=True)
            if not self.bwd.success:
                raise ArithmeticError(self.bwd.message)

    def __call__(self, t):
        if t == 0.0:
            return np.array(self.y0)
        if t > 0:
            if t > self.t_hi * (1 + 1e-12):
                raise ValueError("outside the integrated range")
            return self.fwd.sol(min(t, self.t_hi))
        if t < self.t_lo * (1 + 1e-12):
            raise ValueError("outside the integrated range")
        return self.bwd.sol(max(t, self.t_lo))


def shifted(order, nf, a_s, L, a_em=0.0, running=False, nl=3):
    """a_s(xi^2 mu^2) (and a_em) given the couplings at mu^2; L = ln xi^2."""
    if L == 0.0:
        return float(a_s), float(a_em)
    tr = Trajectory(order, nf, a_s, a_em, running, nl, t_lo=L, t_hi=L)
    y = tr(L)
    return float(y[0]), float(y[1])


def time_to_reach(order, nf, a_s0, a_s1, a_em0=0.0, running=False, nl=3, t_max=400.0):
    """t such that a_s(t) = a_s1 on the trajectory through (a_s0, a_em0) at t = 0 (sign of t follows the direction)."""
    from scipy.integrate import solve_ivp

    if a_s1 == a_s0:
        return 0.0
    f = _rhs(*beta_coeffs(order, nf, nl, running))

    def hit(_t, y):
        return y[0] - a_s1

    hit.terminal = True
    direction = 1.0 if a_s1 < a_s0 else -1.0  # asymptotic freedom: the coupling decreases with t
    sol = solve_ivp(f, (0.0, direction * t_max), [a_s0, a_em0], method="DOP853", rtol=RTOL, atol=1e-30, events=hit)
    if sol.status != 1:
        raise ValueError("target coupling not reached")
    return float(sol.t_events[0][0])


def step_lists(tr, t_from, t_to, k, midpoint="arithmetic"):
    """Coupling lists as documented for the QED kernels (Operator.compute_aem_list docstring): a_s at the borders of
    ``k`` geometric mu^2 steps, (a_s, a_em) at the mid-point of every step - the arithmetic mean of the two mu^2 (what
    the operator uses; second order only while the steps in ln mu^2 are small) or the geometric mean (second order for
    any step size)."""
    ts = np.linspace(t_from, t_to, k + 1)
    as_list = np.array([tr(t)[0] for t in ts])
    a_half = np.zeros((k, 2))
    for i in range(k):
        # ln( (e^tl + e^th) / 2 ) without overflow
        tl, th = ts[i], ts[i + 1]
        hi, lo = max(tl, th), min(tl, th)
        t_half = hi + math.log((1.0 + math.exp(lo - hi)) / 2.0) if midpoint == "arithmetic" else 0.5 * (tl + th)
        a_half[i] = tr(t_half)
    return as_list, a_half

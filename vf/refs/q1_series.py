"""Tiny truncated polynomial algebra in (a, L) for the decoupling checks of engine Q (C16).

A ``P`` is a mapping {(i, j): coefficient} of a^i L^j, truncated at a-degree ``N`` (fixed per instance); coefficients
are ``fractions.Fraction`` (exact) or any ring element supporting + and *.  Only what C16 needs: +, *, powers,
partial derivatives, substitution of a series for ``a`` in a univariate polynomial.  Nothing here imports eko.
"""

from __future__ import annotations

from fractions import Fraction


class P:
    __slots__ = ("c", "N")

    def __init__(self, coeffs=None, N=5):
        self.N = N
        self.c = {}
        for (i, j), v in (coeffs or {}).items():
            if i <= N and v != 0:
                self.c[(i, j)] = self.c.get((i, j), 0) + v

    # -- constructors
    @classmethod
    def a(cls, N=5):
        return cls({(1, 0): Fraction(1)}, N)

    @classmethod
    def const(cls, v, N=5):
        return cls({(0, 0): v}, N)

    # -- ring operations
    def __add__(self, o):
        if not isinstance(o, P):
            o = P.const(o, self.N)
        r = dict(self.c)
        for k, v in o.c.items():
            r[k] = r.get(k, 0) + v
        return P(r, min(self.N, o.N))

    __radd__ = __add__

    def __neg__(self):
        return P({k: -v for k, v in self.c.items()}, self.N)

    def __sub__(self, o):
        return self + (-o if isinstance(o, P) else -o)

    def __rsub__(self, o):
        return (-self) + o

    def __mul__(self, o):
        if not isinstance(o, P):
            return P({k: v * o for k, v in self.c.items()}, self.N)
        N = min(self.N, o.N)
        r = {}
        for (i1, j1), v1 in self.c.items():
            for (i2, j2), v2 in o.c.items():
                if i1 + i2 <= N:
                    k = (i1 + i2, j1 + j2)
                    r[k] = r.get(k, 0) + v1 * v2
        return P(r, N)

    __rmul__ = __mul__

    def __pow__(self, n):
        r = P.const(Fraction(1), self.N)
        for _ in range(n):
            r = r * self
        return r

    # -- calculus
    def da(self):
        return P({(i - 1, j): v * i for (i, j), v in self.c.items() if i > 0}, self.N)

    def dL(self):
        return P({(i, j - 1): v * j for (i, j), v in self.c.items() if j > 0}, self.N)

    # -- access
    def coeff(self, i, j):
        return self.c.get((i, j), Fraction(0))

    def keys(self):
        return sorted(k for k, v in self.c.items() if v != 0)

    def max_abs(self):
        return max((abs(float(v)) for v in self.c.values()), default=0.0)


def power_series(coeffs, x: P, lowest: int):
    """sum_k coeffs[k] * x^(lowest+k) for a series x = O(a)."""
    r = P({}, x.N)
    xp = x**lowest
    for k, ck in enumerate(coeffs):
        if k:
            xp = xp * x
        r = r + xp * ck
    return r


def matching_series(table, N=5):
    """G(a, L) = a + sum_{n>=1} sum_{l<=n} table[n][l] L^l a^(n+1) from a (4x4) coefficient table."""
    c = {(1, 0): Fraction(1)}
    for n in range(1, len(table)):
        for l in range(0, n + 1):
            v = table[n][l]
            if v != 0:
                c[(n + 1, l)] = v if isinstance(v, Fraction) else Fraction(float(v))
    return P(c, N)


def substitute(F: P, x: P):
    """F(a -> x(a, L), L): F a polynomial in (a, L), x = O(a) a series."""
    r = P({}, min(F.N, x.N))
    pows = {0: P.const(Fraction(1), x.N)}
    top = max((i for i, _ in F.c), default=0)
    for i in range(1, top + 1):
        pows[i] = pows[i - 1] * x
    for (i, j), v in F.c.items():
        r = r + pows[i] * P({(0, j): v}, x.N)
    return r

"""Limits at integer Mellin moments approached from the complex plane (shared by C25 and C29).

Several expressions of ekore have removable singularities at the integers where sum rules are stated (factors
1/(N-1), 1/(N-2) that cancel in the limit; the repository's own tests evaluate at N + 1e-6 / N + 1e-8 for that
reason).  The limit is taken by sampling N = N0 + eps * exp(i phi) for three radii and extrapolating the values
quadratically to eps = 0 (Lagrange form).  With EPS = (1e-4, 1e-5, 1e-6) the weights are (1.1e-3, -0.12, 1.12), so
rounding errors of the samples (up to ~1e-10 relative at eps = 1e-6 for a 0/0 form) are not amplified, and the
truncation error is O(f''' * 1e-15).
"""

import cmath

EPS = (1e-4, 1e-5, 1e-6)


def weights(eps=EPS):
    w = []
    for i, ei in enumerate(eps):
        x = 1.0
        for j, ej in enumerate(eps):
            if j != i:
                x *= (-ej) / (ei - ej)
        w.append(x)
    return w


_W = weights()


def extrapolate(vals):
    """Value at eps = 0 from samples at EPS (scalars or numpy arrays)."""
    out = _W[0] * vals[0]
    for w, v in zip(_W[1:], vals[1:]):
        out = out + w * v
    return out


def points(n0, phi):
    """The three sample points around the integer n0 along direction phi."""
    d = cmath.exp(1j * phi)
    return [complex(n0) + e * d for e in EPS]


def limit(f, n0, phi):
    """lim_{N -> n0} f(N) along direction phi."""
    return extrapolate([f(n) for n in points(n0, phi)])

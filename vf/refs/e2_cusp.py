"""Literature values of the light-like cusp anomalous dimension (C27), typed independently of eko.

Normalisation: a = alpha_s / (4 pi), QCD with Nc = 3 (C_F = 4/3, C_A = 3, T_R = 1/2), and eko's sign convention
gamma(N) = - Mellin[P](N), so that for N -> infinity

    gamma_ns^(k-1)(N) = A_k (ln N + gamma_E) - B_k + O(ln N / N),        gamma_gg likewise with A_{k,g}.

Sources
* A_1 = 4 C_F; A_2 = 8 C_F [(67/18 - zeta2) C_A - 5/9 nf]                       (Kodaira, Trentadue 1982)
* A_3 = 16 C_F C_A^2 [245/24 - 67/9 zeta2 + 11/6 zeta3 + 11/5 zeta2^2] + 16 C_F^2 nf [-55/24 + 2 zeta3]
        + 16 C_F C_A nf [-209/108 + 10/9 zeta2 - 7/3 zeta3] + 16 C_F nf^2 [-1/27]
  (Moch, Vermaseren, Vogt 2004, Nucl. Phys. B688, eq. 3.11; numerically 1174.898 - 183.187 nf - 0.79012 nf^2)
* A_4 (quark) = 20702.4 - 5171.92 nf + 195.5772 nf^2 + 3.272344 nf^3
  (Moch, Ruijl, Ueda, Vermaseren, Vogt 2017, "Four-loop non-singlet splitting functions in the planar limit and
  beyond": 20702(2) - 5171.9(2) nf + 195.5772 nf^2 + 3.272344 nf^3; the first two coefficients fixed by the exact
  four-loop cusp of Henn, Korchemsky, Mistlberger 2019 and von Manteuffel, Panzer, Schabinger 2020)
* gluon: A_{k,g} = (C_A / C_F) A_k for k <= 3 (Casimir scaling); at four loops Casimir scaling is broken by the
  quartic Casimir invariants: A_{4,g} = 40880.330 - 11714.246 nf + 440.04876 nf^2 + 7.3627750 nf^3
  (same references; the nf^2 and nf^3 terms still scale with 9/4, which is a useful check of the typing:
  440.04876 / 195.5772 = 7.362775 / 3.272344 = 2.25)

Each value is returned as the list of its nf-terms, so that callers can form both the value (sum) and the
natural magnitude (sum of absolute values): A_4(nf=5) = 141 is a cancellation of terms of size 2e4.
"""

import math

ZETA2 = math.pi**2 / 6.0
ZETA3 = 1.2020569031595942
CF, CA = 4.0 / 3.0, 3.0


def quark_terms(k, nf):
    """nf-terms of A_k (k = 1..4)."""
    if k == 1:
        return [4.0 * CF]
    if k == 2:
        return [8.0 * CF * CA * (67.0 / 18.0 - ZETA2), -8.0 * CF * 5.0 / 9.0 * nf]
    if k == 3:
        return [
            16.0 * CF * CA**2 * (245.0 / 24.0 - 67.0 / 9.0 * ZETA2 + 11.0 / 6.0 * ZETA3 + 11.0 / 5.0 * ZETA2**2),
            (16.0 * CF**2 * (-55.0 / 24.0 + 2.0 * ZETA3)
             + 16.0 * CF * CA * (-209.0 / 108.0 + 10.0 / 9.0 * ZETA2 - 7.0 / 3.0 * ZETA3)) * nf,
            -16.0 * CF / 27.0 * nf**2,
        ]
    if k == 4:
        return [20702.4, -5171.92 * nf, 195.5772 * nf**2, 3.272344 * nf**3]
    raise ValueError(k)


def gluon_terms(k, nf):
    """nf-terms of A_{k,g}."""
    if k <= 3:
        return [CA / CF * t for t in quark_terms(k, nf)]
    if k == 4:
        return [40880.330, -11714.246 * nf, 440.04876 * nf**2, 7.3627750 * nf**3]
    raise ValueError(k)


def self_check():
    """Consistency of the typed numbers with the numerical forms quoted in the papers."""
    a3 = quark_terms(3, 1)
    assert abs(a3[0] - 1174.898) < 2e-3 and abs(a3[1] + 183.187) < 2e-3 and abs(a3[2] + 0.79012) < 1e-5
    a2 = quark_terms(2, 1)
    assert abs(a2[0] - 66.4731) < 1e-3 and abs(a2[1] + 5.92593) < 1e-5
    q4, g4 = quark_terms(4, 1), gluon_terms(4, 1)
    assert abs(g4[2] / q4[2] - 2.25) < 1e-6 and abs(g4[3] / q4[3] - 2.25) < 1e-6
    return True


def log_coefficient(ns, values):
    """Coefficient A of ln N from samples of gamma at four large moments.

    Model (structure of the diagonal splitting functions at large x, Moch-Vermaseren-Vogt 2004 eq. 4.14:
    P = A/(1-x)_+ + B delta(1-x) + C ln(1-x) + D + o(1)):

        gamma(N) = A ln N + c + (C ln N + D) / N + O(ln^2 N / N^2).

    The plain two-point slope in ln N carries a bias (C ln N1 + D)/(N1 ln(N2/N1)), 2e-3 of A at N1 = 1e3; solving the
    4x4 linear system removes it and leaves O(ln^2 N / N^2) ~ 1e-5."""
    import numpy as np

    ns = np.asarray(ns, dtype=complex)
    L = np.log(ns)
    M = np.stack([L, np.ones_like(L), L / ns, 1.0 / ns], axis=1)
    sol = np.linalg.solve(M, np.asarray(values, dtype=complex))
    return sol[0]

"""Independent references for the harmonic sums of ``ekore.harmonics`` (engine E, property C24).

Nothing in this file imports eko/ekore.  Three kinds of references are provided:

* exact nested sums at positive integer N in ``fractions.Fraction`` arithmetic, straight from the definition

      S_{a}(N)       = sum_{j=1}^{N} sgn(a)^j / j^|a|
      S_{a,b,...}(N) = sum_{j=1}^{N} sgn(a)^j / j^|a| * S_{b,...}(j)

  (Vermaseren 1998 / Bluemlein-Kurth 2000 convention, the one quoted in the docstrings of w1..w5);

* the one-step difference ``S(N+1) - S(N) = term(N+1)`` for complex N, where ``term`` is built from the *lower* sums
  at N+1 and the parity ``eta = (-1)^(N+1)`` of the upper point;

* the Mellin integrands quoted in the docstrings of ``g_functions`` and ``log_functions`` for ``mpmath.quad``
  (conventions: see the comment above ``G_SHIFT``), and mpmath polygamma / Hurwitz-zeta forms of S_{+-1..+-5}.
"""

from fractions import Fraction as F

# name -> index tuple (negative index = alternating)
INDICES = {
    "S1": (1,),
    "S2": (2,),
    "S3": (3,),
    "S4": (4,),
    "S5": (5,),
    "Sm1": (-1,),
    "Sm2": (-2,),
    "Sm3": (-3,),
    "Sm4": (-4,),
    "Sm5": (-5,),
    "S21": (2, 1),
    "S2m1": (2, -1),
    "Sm21": (-2, 1),
    "Sm2m1": (-2, -1),
    "S31": (3, 1),
    "Sm31": (-3, 1),
    "Sm22": (-2, 2),
    "S211": (2, 1, 1),
    "Sm211": (-2, 1, 1),
}
NAMES = list(INDICES)
BY_INDEX = {v: k for k, v in INDICES.items()}
# sums whose value depends on the parity flag (contain a negative index)
ALTERNATING = [n for n, idx in INDICES.items() if any(i < 0 for i in idx)]
# sums obtained through the polygamma functions (rounding-level accuracy is claimed) ...
EXACT_FAMILY = ["S1", "S2", "S3", "S4", "S5", "Sm1", "Sm2", "Sm3", "Sm4", "Sm5"]
# ... and those that go through the parametrised Mellin transforms g3..g22 (accuracy of the parametrisation)
PARAM_FAMILY = [n for n in NAMES if n not in EXACT_FAMILY]

NMAX = 61
_TABLES = {}


def _table(idx):
    """Prefix table T[n] = S_idx(n), n = 0..NMAX, exact."""
    if idx in _TABLES:
        return _TABLES[idx]
    a = idx[0]
    inner = _table(idx[1:]) if len(idx) > 1 else None
    out = [F(0)]
    acc = F(0)
    for j in range(1, NMAX + 1):
        t = F((-1) ** j if a < 0 else 1, j ** abs(a))
        if inner is not None:
            t *= inner[j]
        acc += t
        out.append(acc)
    _TABLES[idx] = out
    return out


def exact(name, n):
    """Exact value of the harmonic sum ``name`` at the integer ``1 <= n <= NMAX``."""
    if not (0 <= n <= NMAX):
        raise ValueError(n)
    return _table(INDICES[name])[n]


def weight(name):
    return sum(abs(i) for i in INDICES[name])


def step_term(name, n1, eta1, lower):
    """Difference S_name(n1) - S_name(n1 - 1) for complex n1.

    ``eta1`` is the parity (+1 / -1) attached to the *upper* point n1 (the analytic continuation of (-1)^n1) and
    ``lower(name)`` must return the value of the lower sum ``name`` at n1 *with the same parity*.
    """
    idx = INDICES[name]
    a = idx[0]
    t = (eta1 if a < 0 else 1.0) / n1 ** abs(a)
    if len(idx) > 1:
        t = t * lower(BY_INDEX[idx[1:]])
    return t


# S11 is not among the code's sums but is the inner sum of S211 / Sm211: S11 = (S1^2 + S2)/2 (exact identity,
# follows from symmetrising the double sum); kept separate so that INDICES stays the list of the code's keys.
def s11(s1, s2):
    return 0.5 * (s1 * s1 + s2)


BY_INDEX[(1, 1)] = "S11"

# ----------------------------------------------------------------------------------------- Mellin integrands
#
# Conventions.  ``mellin_g3`` is the transform  int_0^1 x^(N-1) f(x) dx  (Pegasus convention; stated in the note of
# ``w3.Sm21``: "mellin g3 was integrated following x^(N-1) convention"), all other g-functions are the transforms of
# the references their docstrings cite (Bluemlein-Kurth 2000 eqs. 61-65, 124-128; Muselli B.5.25 ff.), which define
# M[f](N) = int_0^1 x^N f(x) dx.  Probe on the unchanged tree: with these conventions every g-function agrees with the
# integral to <= 2e-6; with the other convention the difference is O(0.1).  The log functions use x^(N-1)
# (tests/ekore/harmonics/test_log_functions.py).

G_SHIFT = {"g3": 0, "g4": 1, "g5": 1, "g6": 1, "g8": 1, "g18": 1, "g19": 1, "g21": 1, "g22": 1}
G_NAMES = list(G_SHIFT)
# (power of (1-x), power of the logarithm) for lm1<k>[m<p>]
LM_NAMES = {
    "lm11": (0, 1),
    "lm12": (0, 2),
    "lm13": (0, 3),
    "lm14": (0, 4),
    "lm15": (0, 5),
    "lm11m1": (1, 1),
    "lm12m1": (1, 2),
    "lm13m1": (1, 3),
    "lm14m1": (1, 4),
    "lm15m1": (1, 5),
    "lm11m2": (2, 1),
    "lm12m2": (2, 2),
    "lm13m2": (2, 3),
    "lm14m2": (2, 4),
}


def nielsen_s12(mp, x):
    """Nielsen polylogarithm S_{1,2}(x) = 1/2 int_0^x ln^2(1-t)/t dt for complex |x| <= 1 (analytic in the disc)."""
    ax = abs(x)
    if ax == 0:
        return mp.mpc(0)
    if ax < 0.5:
        # S_{1,2}(x) = sum_{k>=2} S_1(k-1)/k^2 x^k
        tot = mp.mpc(0)
        s1 = mp.mpf(0)
        xk = x
        eps = mp.mpf(10) ** (-mp.mp.dps - 2)
        for k in range(2, 2000):
            s1 += mp.mpf(1) / (k - 1)
            xk *= x
            term = s1 / (k * k) * xk
            tot += term
            if abs(term) < eps:
                break
        return tot
    if abs(1 - x) < 0.9 and mp.re(x) > 0:
        # 1/2 ln^2(1-x) ln x + ln(1-x) Li2(1-x) - Li3(1-x) + zeta3 : every term is analytic (principal branches)
        # in the lens |1-x| < 1, Re x > 0, so the identity extends from 0 < x < 1
        l1 = mp.log(1 - x)
        return l1 * l1 * mp.log(x) / 2 + l1 * mp.polylog(2, 1 - x) - mp.polylog(3, 1 - x) + mp.zeta(3)
    return mp.quad(lambda u: mp.log(1 - x * u) ** 2 / u, [0, 0.5, 1]) / 2


def g_integrand(name):
    """f(mp, x, lnx) with mellin_<name> = M[f] according to its docstring (x complex, |x| <= 1)."""
    table = {
        "g3": lambda mp, x, lx: mp.polylog(2, x) / (1 + x),
        "g4": lambda mp, x, lx: mp.polylog(2, -x) / (1 + x),
        "g5": lambda mp, x, lx: mp.polylog(2, x) * lx / (1 + x),
        "g6": lambda mp, x, lx: mp.polylog(3, x) / (1 + x),
        "g8": lambda mp, x, lx: nielsen_s12(mp, x) / (1 + x),
        "g18": lambda mp, x, lx: -(mp.polylog(2, x) - mp.zeta(2)) / (1 - x),
        "g19": lambda mp, x, lx: -(mp.polylog(2, -x) + mp.zeta(2) / 2) / (1 - x),
        "g21": lambda mp, x, lx: -(nielsen_s12(mp, x) - mp.zeta(3)) / (1 - x),
        "g22": lambda mp, x, lx: -(mp.polylog(2, x) * lx) / (1 - x),
    }
    return table[name]


def lm_integrand(p, k):
    return lambda mp, x, lx: (1 - x) ** p * mp.log(1 - x) ** k


def mellin_quad(f, n, dps=20):
    """int_0^1 x^(n-1) f(x) dx for complex n with Re n > 0; returns (value, quadrature error estimate).

    With x = exp(-t) the integral is int_0^inf exp(-n t) f(exp(-t)) dt; the contour is rotated to
    t = s conj(n)/|n| (s > 0), on which exp(-n t) = exp(-|n| s) does not oscillate.  The rotation is legitimate
    because f(exp(-t)) is analytic and bounded for Re t > 0 (all integrands are analytic in the open unit disc)
    and the rotated ray stays in Re t > 0.  ``lnx`` is passed explicitly as -t so that no branch of ln x is crossed.
    Verified against the plain real-x quadrature (identical to the quoted error) for several N and all integrands.
    """
    import mpmath as mp

    old = mp.mp.dps
    mp.mp.dps = dps
    try:
        nn = mp.mpc(n.real, n.imag)
        a = abs(nn)
        d = mp.conj(nn) / a

        def integrand(s):
            t = s * d
            return mp.exp(-a * s) * f(mp, mp.exp(-t), -t)

        top = (dps + 3) * mp.log(10) / a
        val, err = mp.quad(integrand, [0, top / 40, top / 10, top / 3, top], error=True)
        return complex(val * d), float(err)
    finally:
        mp.mp.dps = old


# ----------------------------------------------------------------------------------------- polygamma references


def simple_sums_mp(n, eta, dps=20):
    """S_1..S_5 and S_-1..S_-5 at complex n from mpmath's polygamma / Hurwitz zeta (independent implementation).

    S_k(n)  = zeta(k) - zeta(k, n+1)                      (k >= 2),   S_1(n) = psi(n+1) + gamma_E
    S_-k(n) = -d_k + eta 2^-k [zeta(k,(n+1)/2) - zeta(k,(n+2)/2)]   with d_k = (1 - 2^(1-k)) zeta(k)
    S_-1(n) = -ln 2 + eta/2 [psi((n+2)/2) - psi((n+1)/2)]
    where eta is the analytic continuation of (-1)^n (+1 / -1).  The alternating formula follows from splitting the
    tail sum_{j>n} (-1)^j/j^k into even and odd j; it is *not* the form used by ekore (which takes
    S_k(n/2) or S_k((n-1)/2) depending on the flag).
    """
    import mpmath as mp

    old = mp.mp.dps
    mp.mp.dps = dps
    try:
        z = mp.mpc(n.real, n.imag)
        out = {}
        out["S1"] = complex(mp.digamma(z + 1) + mp.euler)
        a, b = (z + 1) / 2, (z + 2) / 2
        out["Sm1"] = complex(-mp.log(2) + mp.mpf(eta) / 2 * (mp.digamma(b) - mp.digamma(a)))
        for k in range(2, 6):
            out[f"S{k}"] = complex(mp.zeta(k) - mp.zeta(k, z + 1))
            dk = (1 - mp.mpf(2) ** (1 - k)) * mp.zeta(k)
            out[f"Sm{k}"] = complex(-dk + mp.mpf(eta) / 2**k * (mp.zeta(k, a) - mp.zeta(k, b)))
        return out
    finally:
        mp.mp.dps = old

"""Independent reference for the renormalisation-group structure of the matching elements (C29).

Setting.  Below a heavy-quark threshold the distributions live in the nf-flavour scheme, above in the
(nf+1)-flavour scheme, and the matching reads (Matching.rst)

    f^(nf+1)(mu) = A(a', L) f^(nf)(mu),     A = 1 + sum_k a'^k A_k(L),
    a' = a_s^(nf+1)(mu),  L = ln(mu^2/m_h^2).

Both sides obey DGLAP in their own scheme, ``d f / d ln mu^2 = - gamma(a) f`` (eko's sign convention
``gamma = - Mellin[P]``), with the coupling of their own scheme, ``d a / d ln mu^2 = beta(a) = - sum_j beta_j
a^(j+2)``, and the two couplings are tied by the decoupling relation ``a' = a (1 + C1(L) a + C2(L) a^2 + ...)``.
Differentiating the matching relation with respect to ln mu^2 at fixed m_h gives the identity used as oracle

    dA/dL = - gamma'(a') A + A gamma(a(a', L)) - beta'(a') dA/da'                      (*)

as a power series in a'.  Nothing in (*) knows how the A_k were obtained; the only inputs are the anomalous
dimensions of the two schemes, the beta function and the decoupling constants, all typed here from the
literature (Nc = 3, a = alpha_s / 4 pi):

* beta_0 = 11 - 2/3 nf,  beta_1 = 102 - 38/3 nf                                   (Herzog et al. 2017, eq. 3.1-3.2)
* pole mass decoupling  a' = a [1 + 2/3 L a + (4/9 L^2 + 38/3 L + 14/3) a^2]        (Chetyrkin-Kniehl-Steinhauser
  1997: alpha^(nl)/alpha^(nf) = 1 - x L/6 + x^2 (L^2/36 - 19/24 L - 7/24), x = alpha/pi, inverted and
  multiplied by 4^k; the same numbers are eq. 2.43 of Vogt 2004 "PEGASUS")
* m_pole = m(m) (1 + 4 C_F a + O(a^2))  (Gray-Broadhurst-Grafe-Schilcher 1990; 4/3 alpha_s/pi), which turns a
  pole-mass logarithm into an MSbar one:  L_pole = L_msbar - 2 * 4 C_F a + O(a^2).

Bases.  The matching matrices act on (g, Sigma_light, h+) and (V_light, h-).  In the (nf+1)-flavour scheme one
quark combination q_i^+ evolves with ``gamma_ns+ q_i^+ + (gamma_ps Sigma' + gamma_qg g)/(nf+1)`` where
Sigma' = Sigma_light + h+ and gamma_qg, gamma_ps are the entries of the ordinary singlet matrix (which contain
the sum over all nf+1 flavours).  Summing over the nf light flavours gives (r = nf/(nf+1))

    gamma'_(g,Sl,h+) = [[ g_gg        , g_gq              , g_gq               ],
                        [ r g_qg      , g_ns+ + r g_ps    , r g_ps             ],
                        [ g_qg/(nf+1) , g_ps/(nf+1)       , g_ns+ + g_ps/(nf+1)]]

and in the nf-flavour scheme the heavy quark does not evolve: the ordinary singlet matrix in the upper-left
block, zero row and column for h+.  For time-like evolution eko stores the transposed-splitting matrix
``[[qq, 2nf*gq],[qg/(2nf), gg]]`` in the same (Sigma, g) slots, so the same embedding applies verbatim.  For the
valence-like sector q_i^- evolves with ``gamma_ns- q_i^- + gamma_nss V'/(nf+1)``, gamma_nss = gamma_nsv -
gamma_ns-, hence

    gamma'_(Vl,h-) = [[ g_ns- + r g_nss , r g_nss             ],
                      [ g_nss/(nf+1)    , g_ns- + g_nss/(nf+1)]].
"""

import numpy as np

CA, CF, TR = 3.0, 4.0 / 3.0, 0.5


def beta(j, nf):
    """beta_j of ``da/dlnmu^2 = - sum_j beta_j a^(j+2)`` (Nc = 3)."""
    if j == 0:
        return 11.0 - 2.0 / 3.0 * nf
    if j == 1:
        return 102.0 - 38.0 / 3.0 * nf
    raise ValueError(j)


def decoupling_up(L):
    """[C1(L), C2(L)] of a' = a (1 + C1 a + C2 a^2), pole mass."""
    return [2.0 / 3.0 * L, 4.0 / 9.0 * L**2 + 38.0 / 3.0 * L + 14.0 / 3.0]


def coupling_down_series(L, order, absolute=False):
    """Coefficients s[p] of a = sum_p s[p] a'^p (p = 0..order) — the inverse of the decoupling relation.

    ``absolute=True`` returns term-by-term magnitudes instead (used to build the scale of a cancellation)."""
    c1, c2 = decoupling_up(L)
    s = [0.0, 1.0, -c1, 2.0 * c1**2 - c2]
    if absolute:
        aL = abs(L)
        c2a = 4.0 / 9.0 * aL**2 + 38.0 / 3.0 * aL + 14.0 / 3.0
        s = [0.0, 1.0, abs(c1), 2.0 * c1**2 + c2a]
    return s[: order + 1] + [0.0] * max(0, order + 1 - len(s))


POLE_TO_MSBAR_SHIFT = -2.0 * 4.0 * CF
"""``L_pole = L_msbar + POLE_TO_MSBAR_SHIFT * a + O(a^2)``."""

# ----------------------------------------------------------------------------- bases


def embed_high_singlet(gS, g_nsp, nf):
    """(nf+1)-scheme singlet matrix in (g, Sigma_light, h+) from eko's ``[[qq, qg],[gq, gg]]`` at nf+1 flavours."""
    n1 = nf + 1.0
    r = nf / n1
    qq, qg, gq, gg = gS[0, 0], gS[0, 1], gS[1, 0], gS[1, 1]
    ps = qq - g_nsp
    return np.array(
        [
            [gg, gq, gq],
            [r * qg, g_nsp + r * ps, r * ps],
            [qg / n1, ps / n1, g_nsp + ps / n1],
        ],
        dtype=complex,
    )


def embed_low_singlet(gS):
    """nf-scheme singlet matrix in (g, Sigma_light, h+): the heavy quark does not evolve."""
    qq, qg, gq, gg = gS[0, 0], gS[0, 1], gS[1, 0], gS[1, 1]
    return np.array([[gg, gq, 0.0], [qg, qq, 0.0], [0.0, 0.0, 0.0]], dtype=complex)


def embed_high_valence(g_nsm, g_nsv, nf):
    n1 = nf + 1.0
    r = nf / n1
    s = g_nsv - g_nsm
    return np.array([[g_nsm + r * s, r * s], [s / n1, g_nsm + s / n1]], dtype=complex)


def embed_low_valence(g_nsv):
    return np.array([[g_nsv, 0.0], [0.0, 0.0]], dtype=complex)


# ----------------------------------------------------------------------------- series algebra (matrix valued)


def _zeros(dim, order):
    return [np.zeros((dim, dim), dtype=complex) for _ in range(order + 1)]


def series_mul(X, Y, order):
    """Cauchy product of two matrix-valued series given as lists indexed by the power of a'."""
    dim = X[0].shape[0]
    out = _zeros(dim, order)
    for i, x in enumerate(X):
        for j, y in enumerate(Y):
            if i + j <= order:
                out[i + j] = out[i + j] + x @ y
    return out


def scalar_series_pow(s, k, order):
    """k-th power of a scalar series (list indexed by power), truncated."""
    out = [1.0] + [0.0] * order
    for _ in range(k):
        new = [0.0] * (order + 1)
        for i, x in enumerate(out):
            for j, y in enumerate(s):
                if i + j <= order:
                    new[i + j] += x * y
        out = new
    return out


def rg_rhs(A_tower, gam_high, gam_low, nf, L, order, absolute=False):
    """Right-hand side of (*) order by order.

    A_tower: [A_1(L) .. A_order(L)] (dim x dim), gam_high / gam_low: [gamma_0 .. gamma_(order-1)] already embedded.
    Returns [R_1 .. R_order] with R_k the coefficient of a'^k of dA/dL.  With ``absolute=True`` every factor is
    replaced by its magnitude and all terms are added: the natural scale of the cancellation, entry by entry.
    """
    dim = A_tower[0].shape[0]
    one = np.eye(dim, dtype=complex)
    mod = (lambda x: np.abs(np.asarray(x, dtype=complex)).astype(complex)) if absolute else (
        lambda x: np.asarray(x, dtype=complex))
    A = [one] + [mod(a) for a in A_tower[:order]]
    Gh = [np.zeros((dim, dim), dtype=complex)] + [mod(g) for g in gam_high[:order]]
    gam_low = [mod(g) for g in gam_low]
    # gamma of the low scheme, re-expanded in a'
    s = coupling_down_series(L, order, absolute)
    Gl = _zeros(dim, order)
    for j, g in enumerate(gam_low[:order]):
        pw = scalar_series_pow(s, j + 1, order)
        for p in range(order + 1):
            Gl[p] = Gl[p] + pw[p] * np.asarray(g, dtype=complex)
    # beta'(a') = - sum_j beta_j a'^(j+2)
    B = [0.0] * (order + 1)
    for j in range(0, 2):
        if j + 2 <= order:
            B[j + 2] = -beta(j, nf + 1)
    if absolute:
        B = [abs(b) for b in B]
    dA = [(k + 1) * A[k + 1] for k in range(order)] + [np.zeros((dim, dim), dtype=complex)]
    t1 = series_mul(Gh, A, order)
    t2 = series_mul(A, Gl, order)
    t3 = _zeros(dim, order)
    for i, b in enumerate(B):
        if b == 0.0:
            continue
        for j, d in enumerate(dA):
            if i + j <= order:
                t3[i + j] = t3[i + j] + b * d
    if absolute:
        return [t1[k] + t2[k] + t3[k] for k in range(1, order + 1)]
    return [-t1[k] + t2[k] - t3[k] for k in range(1, order + 1)]


def five_point_derivative(f_m2, f_m1, f_p1, f_p2, h):
    """Exact first derivative at the centre for polynomials of degree <= 4."""
    return (f_m2 - 8.0 * f_m1 + 8.0 * f_p1 - f_p2) / (12.0 * h)


def node_derivatives(values, h):
    """d/dL at each of five equidistant nodes (spacing h) of array-valued polynomials of degree <= 4.

    ``values`` are the arrays sampled at t = -2..2; the quartic through them is differentiated analytically, which is
    exact (up to rounding) for the matching elements: A_k is a polynomial of degree k <= 3 in L."""
    t = np.array([-2.0, -1.0, 0.0, 1.0, 2.0])
    V = np.vander(t, 5, increasing=True)
    Vinv = np.linalg.inv(V)
    stack = np.stack([np.asarray(v, dtype=complex) for v in values])  # (5, ...)
    coef = np.tensordot(Vinv, stack, axes=(1, 0))  # (5, ...): coefficients of t^j
    out = []
    for tt in t:
        d = sum(j * coef[j] * tt ** (j - 1) for j in range(1, 5))
        out.append(d / h)
    return out

"""C14 reference: what the QCDxQED kernels must give when alpha_em = 0.

Basis orders (doc/source/theory/FlavorSpace.rst and the docstrings of ekore ``as1.gamma_singlet_qed`` /
``gamma_valence_qed``): QCD singlet (Sigma, g); unified singlet (g, gamma, Sigma, Sigma_Delta); unified valence
(V, V_Delta).  The pure-QCD coefficients sit at ``gamma[i, 0]`` (i = 1..n), embedded as

    singlet  [[gg, 0, gq, 0], [0, 0, 0, 0], [qg, 0, qq, 0], [0, 0, 0, ns+]]       valence  2x2 (diagonal in the theory)

Everything here is plain numpy / scipy; beta coefficients come from the literature table typed in
``c20_coefficients`` (not from ``eko.beta``).
"""

from __future__ import annotations

import functools

import numpy as np


@functools.lru_cache(maxsize=None)
def beta_lit(n, nf):
    from vf.props.c20_coefficients import ref_value

    return tuple(float(ref_value(f"beta_qcd:{k + 2},0", nf, 3)) for k in range(n))


def _cplx(rng, size, shape=()):
    r = size * rng.uniform(0.05, 1.0, shape)
    return r * np.exp(1j * rng.uniform(0.0, 2 * np.pi, shape))


def towers(order, seed, valence_generic):
    """QCD towers (singlet 2x2 in (Sigma, g) order, ns+, valence 2x2) and junk for the alpha_em > 0 slots."""
    rng = np.random.default_rng(int(seed))
    n, m = order
    S = np.array([_cplx(rng, 10.0**k, (2, 2)) for k in range(n)])
    nsp = np.array([_cplx(rng, 10.0**k) for k in range(n)])
    if valence_generic:
        V = np.array([_cplx(rng, 10.0**k, (2, 2)) for k in range(n)])
    else:
        V = np.array([np.diag(_cplx(rng, 10.0**k, (2,))) for k in range(n)])
    junk_scale = 10.0 ** rng.uniform(-1, 3)
    return S, nsp, V, rng, junk_scale


def embed_singlet(S, nsp, order, rng, junk):
    n, m = order
    g = np.zeros((n + 1, m + 1, 4, 4), dtype=complex)
    for j in range(1, m + 1):
        for i in range(0, n + 1):
            g[i, j] = _cplx(rng, junk, (4, 4))  # multiplied by alpha_em^j = 0
    for i in range(1, n + 1):
        qq, qg, gq, gg = S[i - 1][0, 0], S[i - 1][0, 1], S[i - 1][1, 0], S[i - 1][1, 1]
        g[i, 0] = [[gg, 0, gq, 0], [0, 0, 0, 0], [qg, 0, qq, 0], [0, 0, 0, nsp[i - 1]]]
    return g


def embed_matrix(T, order, rng, junk):
    n, m = order
    d = T.shape[-1] if T.ndim == 3 else 0
    shape = (d, d) if d else ()
    g = np.zeros((n + 1, m + 1) + shape, dtype=complex)
    for j in range(1, m + 1):
        for i in range(0, n + 1):
            g[i, j] = _cplx(rng, junk, shape)
    for i in range(1, n + 1):
        g[i, 0] = T[i - 1]
    return g


def coupling_lists(a0, a1, k, kind, rng):
    """as_list (k+1) and the a_s column of a_half (k).  'geom': exactly the discretisation of the QCD eko_iterate
    (geometric borders, arithmetic mid-points); 'jitter': monotone borders with random step sizes and an evaluation point
    anywhere in the middle 40 % of each step."""
    if kind == "geom":
        al = np.geomspace(a0, a1, k + 1)
        ah = 0.5 * (al[1:] + al[:-1])
        return al, ah
    w = rng.uniform(0.5, 1.5, k)
    cum = np.concatenate([[0.0], np.cumsum(w)]) / np.sum(w)
    al = a0 * (a1 / a0) ** cum
    al[0], al[-1] = a0, a1
    u = rng.uniform(0.3, 0.7, k)
    ah = al[:-1] + u * (al[1:] - al[:-1])
    return al, ah


def step_generators(T, al, ah, beta):
    """gamma(a_half)/beta(a_half) * (a_h - a_l) for every step; T has one coefficient (scalar or matrix) per order."""
    out = []
    for s in range(len(ah)):
        a = ah[s]
        num = sum(T[i] * a**i for i in range(len(T)))
        den = sum(beta[i] * a ** (i + 1) for i in range(len(T)))
        out.append(num / den * (al[s + 1] - al[s]))
    return out


def midpoint_product(T, al, ah, beta):
    """Ordered product of the step exponentials (latest step on the left) - the documented 'discretised path ordering'."""
    from scipy.linalg import expm

    gens = step_generators(T, al, ah, beta)
    if np.ndim(gens[0]) == 0:
        return complex(np.exp(sum(gens)))
    e = np.eye(gens[0].shape[0], dtype=complex)
    for g in gens:
        e = expm(g) @ e
    return e


def eig_condition(M):
    """Condition number of the eigenvector matrix (the repository exponentiates through the eigen-decomposition)."""
    _w, v = np.linalg.eig(M)
    return float(np.linalg.cond(v))


def ns_exact_quadrature(T, a0, a1, beta):
    """exp( int_{a0}^{a1} gamma(a)/beta(a) da ), gamma = sum T_i a^(i+1), beta = sum beta_i a^(i+2) (DGLAP.rst, with the
    sign convention gamma = -M[P] and da/dln mu^2 = -beta)."""
    from scipy.integrate import quad

    n = len(T)

    def f(a, part):
        num = sum(T[i] * a**i for i in range(n))
        den = sum(beta[i] * a ** (i + 1) for i in range(n))
        z = num / den
        return z.real if part == 0 else z.imag

    re, _ = quad(f, a0, a1, args=(0,), epsabs=0, epsrel=1e-13, limit=200)
    im, _ = quad(f, a0, a1, args=(1,), epsabs=0, epsrel=1e-13, limit=200)
    return complex(np.exp(complex(re, im)))

"""Engine Q reference for C16: decoupling of a heavy quark from the strong coupling.

Conventions (eko.couplings.compute_matching_coeffs_up docstring; doc/source/theory/pQCD.rst):

    a^(nl+1)(mu) = G(a, L) = a + sum_{n=1..3} sum_{l=0..n} c[n][l] L^l a^(n+1),   a = a^(nl)(mu) = alpha_s/(4 pi),
    L = ln(mu^2 / m^2),  m = pole mass M (POLE)  or  MSbar mass m(mu) (MSBAR, Schroder-Steinhauser eq. 3.1).

Literature constants (typed here, converted from alpha_s/pi to alpha_s/(4 pi), i.e. x 4^n):

* on-shell:  Chetyrkin, Kniehl, Steinhauser, PRL 79 (1997) 2184 [hep-ph/9706430], 1/zeta_g^2 for the pole mass:
      (a/pi)^2: 7/24;   (a/pi)^3: 58933/124416 + (2/3) zeta2 (1 + ln2/3) + 80507/27648 zeta3 - nl (2479/31104 + zeta2/9)
* MSbar m(mu): same paper eq. (20) / Schroder, Steinhauser JHEP 01 (2006) 051 [hep-ph/0512058] eq. (3.1), inverted
  at L=0:  (a/pi)^2: -11/72;   (a/pi)^3: -(564731/124416 - 82043/27648 zeta3) + 2633/31104 nl
* the two sets are tied together by the two-loop pole/MSbar mass relation (Gray, Broadhurst, Grafe, Schilcher 1990):
      m(M)/M = 1 - (4/3) x + x^2 [ -3019/288 - 2 zeta2 - (2/3) zeta2 ln2 + zeta3/6 + nl (71/144 + zeta2/3) ],  x = alpha_s/pi
  which ``selfcheck`` uses to verify that the constants typed above are mutually consistent.

The logarithmic coefficients are *not* typed: they follow from renormalisation-group invariance,

    beta^(nl+1)(G) = dG/da * beta^(nl)(a) + dG/dL * dL/dln mu^2,        dL/dln mu^2 = 1               (POLE)
                                                                                     = 1 + 2 gamma_m^(nl+1)(G) (MSBAR)

(d ln m / d ln mu^2 = -gamma_m(a) = -(gamma_0 a + gamma_1 a^2 + ...), the heavy quark mass and gamma_m belonging to
the (nl+1)-flavour theory), evaluated with the truncated polynomial algebra of ``q1_series`` in exact Fractions and
the C20 literature tables for beta and gamma_m.

``"MSBAR-SI"`` (not used by the registered check, kept for the analysis of its finding) is the variant in which L is
taken with respect to the scale-invariant mass m(m): same constants as MSBAR (at L=0 the two masses coincide), but
dL/dln mu^2 = 1.  Solving the identity then gives c21 = 38/3, c31 = 2191/9 - 281/27 nl, c32 = 511/9, the coefficients
CKS 1997 quote for mu_h = m_h(mu_h).

Nothing in this file imports eko.
"""

from __future__ import annotations

import functools
import math
from fractions import Fraction as F

from .q1_series import P, matching_series, power_series, substitute

SCHEMES = ("POLE", "MSBAR")


def _mp():
    import mpmath as mp

    mp.mp.dps = 30
    return mp


@functools.lru_cache(maxsize=None)
def literature_constants(scheme: str, nl: int):
    """(c20, c30) of the upward relation in a = alpha_s/(4 pi); c20 exact Fraction, c30 float (30-digit evaluation)."""
    mp = _mp()
    z2, z3, ln2 = mp.zeta(2), mp.zeta(3), mp.log(2)
    if scheme == "POLE":
        c20 = 16 * F(7, 24)
        c30 = 64 * (
            mp.mpf(58933) / 124416 + mp.mpf(2) / 3 * z2 * (1 + ln2 / 3) + mp.mpf(80507) / 27648 * z3
            - nl * (mp.mpf(2479) / 31104 + z2 / 9)
        )
    elif scheme in ("MSBAR", "MSBAR-SI"):
        c20 = -16 * F(11, 72)
        c30 = 64 * (-(mp.mpf(564731) / 124416 - mp.mpf(82043) / 27648 * z3) + nl * mp.mpf(2633) / 31104)
    else:
        raise KeyError(scheme)
    return c20, float(c30)


def selfcheck():
    """The OS and MSbar constants typed above are related by the two-loop pole/MSbar mass relation.

    With L_MS(mu=M) = -2 ln(m(M)/M) = (32/3) a + 16 (16/9 - 2 k2) a^2 inserted into the MSbar relation:
        c20_OS = c20_MS + (32/3) c11,      c30_OS = c30_MS + 16 c11 (16/9 - 2 k2) + (32/3) c21_MS
    with c11 = 2/3 and c21_MS = 22/3 (both fixed by the RG identity)."""
    mp = _mp()
    z2, z3, ln2 = mp.zeta(2), mp.zeta(3), mp.log(2)
    c11, c21ms = mp.mpf(2) / 3, mp.mpf(22) / 3
    for nl in (0, 3, 4, 5):
        k2 = -mp.mpf(3019) / 288 - 2 * z2 - mp.mpf(2) / 3 * z2 * ln2 + z3 / 6 + nl * (mp.mpf(71) / 144 + z2 / 3)
        os20, os30 = literature_constants("POLE", nl)
        ms20, ms30 = literature_constants("MSBAR", nl)
        assert os20 == ms20 + F(32, 3) * F(2, 3), (os20, ms20)
        want = ms30 + 16 * c11 * (mp.mpf(16) / 9 - 2 * k2) + mp.mpf(32) / 3 * c21ms
        assert abs(os30 - float(want)) <= 1e-11 * abs(os30), (nl, os30, float(want))
    return True


# --------------------------------------------------------------------------- RG identity


def _frac_poly(tab, nf):
    from vf.props.c20_coefficients import _poly

    assert set(tab) == {"q"}, "only rational coefficients are needed through a^4"
    return _poly(tab["q"], nf)


@functools.lru_cache(maxsize=None)
def beta_fracs(nf: int):
    """[beta_0, beta_1, beta_2] as exact Fractions (Herzog et al. 2017 via the C20 tables)."""
    from vf.props.c20_coefficients import BETA_QCD

    return [_frac_poly(BETA_QCD[(k + 2, 0)], nf) for k in range(3)]


@functools.lru_cache(maxsize=None)
def gamma_fracs(nf: int):
    """[gamma_0, gamma_1] as exact Fractions (Vermaseren, Larin, van Ritbergen 1997 via the C20 tables)."""
    from vf.props.c20_coefficients import GAMMA_M

    return [_frac_poly(GAMMA_M[k + 1], nf) for k in range(2)]


def rg_residual(table, scheme: str, nl: int, N: int = 4) -> P:
    """R(a, L) = beta^(nl+1)(G) - dG/da beta^(nl)(a) - dG/dL (1 [+ 2 gamma_m^(nl+1)(G)]) truncated at a^N.

    ``table`` is a 4x4 array-like of upward coefficients.  Through N = 4 every coefficient of R must vanish."""
    G = matching_series(table, N)
    a = P.a(N)
    beta_lo = -power_series(beta_fracs(nl), a, 2)
    beta_hi = -power_series(beta_fracs(nl + 1), G, 2)
    dLdt = P.const(F(1), N)
    if scheme == "MSBAR":
        dLdt = dLdt + 2 * power_series(gamma_fracs(nl + 1), G, 1)
    elif scheme not in ("POLE", "MSBAR-SI"):
        raise KeyError(scheme)
    return beta_hi - G.da() * beta_lo - G.dL() * dLdt


def rg_expected_logs(table, scheme: str, nl: int):
    """{(n, l): value} the log coefficients c[n][l], l >= 1, must have given the table's own lower-order entries.

    The coefficient of a^(n+1) L^(l-1) in R is linear in c[n][l] with slope -l."""
    R = rg_residual(table, scheme, nl)
    out = {}
    for n in range(1, 4):
        for l in range(1, n + 1):
            out[(n, l)] = F(float(table[n][l])) + R.coeff(n + 1, l - 1) / l
    return out


def solve_logs(c20, c30, scheme: str, nl: int):
    """Build the full upward table from the constants alone by solving the RG identity order by order."""
    tab = [[F(0)] * 4 for _ in range(4)]
    tab[2][0] = F(c20)
    tab[3][0] = F(c30) if not isinstance(c30, F) else c30
    for n in range(1, 4):
        # the equation for c[n][l] only involves lower orders n' < n (slope -l in c[n][l] itself)
        for l in range(n, 0, -1):
            R = rg_residual(tab, scheme, nl)
            tab[n][l] = tab[n][l] + R.coeff(n + 1, l - 1) / l
    R = rg_residual(tab, scheme, nl)
    assert not R.keys(), R.c
    return tab


def composition_defect(outer, inner, N: int = 4) -> P:
    """outer(inner(a, L), L) - a truncated at a^N: zero iff ``outer`` is the series inverse of ``inner``."""
    return substitute(matching_series(outer, N), matching_series(inner, N)) - P.a(N)


def apply_table(table, a: float, L: float, order: int) -> float:
    """a * (1 + sum_{n=1}^{order-1} sum_{l<=n} c[n][l] L^l a^n) - the matching at perturbative order ``order``."""
    fact = 1.0
    for n in range(1, order):
        for l in range(n + 1):
            fact += float(table[n][l]) * L**l * a**n
    return a * fact


# --------------------------------------------------------------------------- path model (written from C19's statement)


def nf_default(mu2: float, thresholds) -> int:
    """3 + number of matching scales passed (a scale sitting on a matching scale belongs to the upper patch)."""
    return 3 + sum(1 for t in thresholds if t <= mu2)


def walk(thresholds, origin, target):
    """Path from origin (mu2, nf) to target (mu2, nf | None).

    Returns a list of steps ``(mu2_from, mu2_to, nf, crossing)`` where ``crossing`` is ``None`` for the last step
    and otherwise ``(quark_index, direction)`` with quark_index 0/1/2 for c/b/t and direction +1 (nf -> nf+1, the
    quark is activated) or -1 (nf -> nf-1).  Each step ends exactly on the matching scale of the quark being
    (de)activated: going from nf to nf+1 that is threshold[nf-3], from nf to nf-1 it is threshold[nf-4]."""
    mu20, nf0 = origin
    mu2f, nff = target
    if nff is None:
        nff = nf_default(mu2f, thresholds)
    steps = []
    cur, nf = mu20, nf0
    d = 1 if nff > nf0 else -1
    while nf != nff:
        q = nf - 3 if d > 0 else nf - 4
        steps.append((cur, thresholds[q], nf, (q, d)))
        cur = thresholds[q]
        nf += d
    steps.append((cur, mu2f, nf, None))
    return steps


def is_short(mu2_from: float, mu2_to: float) -> bool:
    """The documented 'very short segment' shortcut of Couplings.a (numpy.isclose defaults)."""
    return abs(mu2_from - mu2_to) <= 1e-8 + 1e-5 * abs(mu2_to)


def alphas_physical(mu: float) -> float:
    """One-loop nf=5 alpha_s with Lambda = 0.09 GeV (alpha_s(M_Z) = 0.118): a perturbative ball-park for generators."""
    return 4 * math.pi / ((23.0 / 3.0) * math.log(mu * mu / 0.09**2))

"""C14 / C51 helpers: random anomalous-dimension towers and access to the N-space kernels of the tree under test.

``quad_ker_qcd`` / ``quad_ker_qed`` are the functions in which the scale-variation schemes enter the integration kernel.
They fetch the anomalous dimensions from ``ekore`` and return one selected matrix element.  To drive them with
*generated* towers and to get the whole matrix with one call, the harness replaces (in its own interpreted process, no
repository change - same technique as ``tight_quad`` of C50) the names ``ad_us`` and ``select_*_element`` seen by
``eko.evolution_operator.quad_ker``.  Nothing else of the kernel path is touched.
"""

from __future__ import annotations

import contextlib

import numpy as np

SECTORS_QCD = ("ns", "singlet")
SECTORS_QED = ("qed-ns", "qed-valence", "qed-singlet")
DIM = {"ns": 0, "singlet": 2, "qed-ns": 0, "qed-valence": 2, "qed-singlet": 4}


# ----------------------------------------------------------------------------- towers


def _cplx(rng, size, shape):
    r = size * rng.uniform(0.05, 1.0, shape)
    ph = rng.uniform(0.0, 2 * np.pi, shape)
    return r * np.exp(1j * ph)


def make_tower(sector, order, seed):
    """Random complex tower, |gamma_k| <~ 10^k (k = number of extra coupling powers), from an integer seed.

    QCD: shape (n,) or (n,2,2), generic (non-commuting).  QED: shape (n+1, m+1[, d, d]) with the entries that exist in
    the theory filled - (i,0) for i>=1, (0,j) for j>=1 and (1,1) - and zeros elsewhere, as ``ekore`` returns them."""
    rng = np.random.default_rng(int(seed))
    n, m = order
    d = DIM[sector]
    mat = (d, d) if d else ()
    if sector in SECTORS_QCD:
        return np.array([_cplx(rng, 10.0**k, mat) for k in range(n)], dtype=complex)
    g = np.zeros((n + 1, m + 1) + mat, dtype=complex)
    for i in range(1, n + 1):
        g[i, 0] = _cplx(rng, 10.0 ** (i - 1), mat)
    for j in range(1, m + 1):
        g[0, j] = _cplx(rng, 10.0 ** (j - 1), mat)
    g[1, 1] = _cplx(rng, 10.0, mat)
    return g


def commutator_size(tower, sector):
    """||[g0,g1]|| / (||g0|| ||g1||) of the two lowest QCD coefficients (0 for scalars)."""
    if DIM[sector] == 0:
        return 0.0
    t = np.asarray(tower)
    if sector in SECTORS_QCD:
        if len(t) < 2:
            return 0.0
        g0, g1 = t[0], t[1]
    else:
        if t.shape[0] < 3:
            g0, g1 = t[1, 0], t[1, 1]
        else:
            g0, g1 = t[1, 0], t[2, 0]
    c = g0 @ g1 - g1 @ g0
    return float(np.abs(c).max() / (np.abs(g0).max() * np.abs(g1).max()))


# ----------------------------------------------------------------------------- kernel access


class KerBase:
    """Stand-in for ``QuadKerBase``: ``quad_ker_qcd`` / ``quad_ker_qed`` read only the sector flags and ``n``."""

    def __init__(self, sector, n=complex(2.0, 0.0)):
        self.is_singlet = sector == "singlet"
        self.is_QEDsinglet = sector == "qed-singlet"
        self.is_QEDvalence = sector == "qed-valence"
        self.n = n


class _TowerAD:
    """Stand-in for ``ekore.anomalous_dimensions.unpolarized.space_like``: every getter returns a fresh copy of the
    generated tower (the exponentiated scheme modifies its argument in place)."""

    def __init__(self, tower):
        self._t = np.array(tower, dtype=np.complex128)

    def _get(self, *_a, **_k):
        return self._t.copy()

    gamma_singlet = gamma_ns = gamma_singlet_qed = gamma_valence_qed = gamma_ns_qed = _get


def _whole(ker, _m0, _m1):
    return ker


@contextlib.contextmanager
def tower_kernels(tower):
    import numba

    import importlib

    # ``eko.evolution_operator`` re-binds the attribute ``quad_ker`` to a function: fetch the module itself
    qk = importlib.import_module("eko.evolution_operator.quad_ker")
    if not numba.config.DISABLE_JIT:
        raise RuntimeError("tower_kernels needs the interpreted mode (NUMBA_DISABLE_JIT=1)")
    names = ("ad_us", "select_singlet_element", "select_QEDsinglet_element", "select_QEDvalence_element")
    saved = {k: getattr(qk, k) for k in names}
    qk.ad_us = _TowerAD(tower)
    qk.select_singlet_element = _whole
    qk.select_QEDsinglet_element = _whole
    qk.select_QEDvalence_element = _whole
    try:
        yield qk
    finally:
        for k, v in saved.items():
            setattr(qk, k, v)


MODES0 = {"ns": 10101, "singlet": 100, "qed-ns": 10102, "qed-valence": 10200, "qed-singlet": 21}


def sv_mode(name):
    from eko import scale_variations as sv

    return {"unvaried": sv.Modes.unvaried, "exponentiated": sv.Modes.exponentiated, "expanded": sv.Modes.expanded}[name]


def ev_method(name):
    from eko.io.types import EvolutionMethod
    from eko.kernels import ev_method as conv

    return conv(EvolutionMethod(name))


def kernel_qcd(qk, sector, order, method, a1, a0, nf, L, iters, max_order, scheme, is_threshold=False):
    """The pure-QCD kernel exactly as the integrand assembles it (whole matrix for the singlet)."""
    return qk.quad_ker_qcd(
        ker_base=KerBase(sector), order=tuple(order), mode0=MODES0[sector], mode1=MODES0[sector] if sector == "singlet" else 0,
        ev_method=ev_method(method), as1=a1, as0=a0, nf=nf, Lsv=L, ev_op_iterations=iters,
        ev_op_max_order=tuple(max_order), sv_mode=sv_mode(scheme), is_threshold=is_threshold, is_polarized=False,
        is_time_like=False, n3lo_ad_variation=(0, 0, 0, 0, 0, 0, 0), use_fhmruvv=True,
    )


def kernel_qed(qk, sector, order, as_list, a_half, mu2_from, mu2_to, running, nf, L, scheme, is_threshold=False):
    """The QCDxQED kernel exactly as the integrand assembles it (whole matrix for singlet / valence)."""
    iters = len(as_list) - 1
    return qk.quad_ker_qed(
        ker_base=KerBase(sector), order=tuple(order), mode0=MODES0[sector], mode1=MODES0[sector] if DIM[sector] else 0,
        ev_method=ev_method("iterate-exact"), as_list=np.asarray(as_list, dtype=float), mu2_from=mu2_from, mu2_to=mu2_to,
        a_half=np.asarray(a_half, dtype=float), alphaem_running=running, nf=nf, Lsv=L, ev_op_iterations=iters,
        ev_op_max_order=(10, order[1]), sv_mode=sv_mode(scheme), is_threshold=is_threshold,
        n3lo_ad_variation=(0, 0, 0, 0, 0, 0, 0), use_fhmruvv=True,
    )


def rel_diff(k, k0):
    k, k0 = np.asarray(k), np.asarray(k0)
    return float(np.max(np.abs(k - k0)) / np.max(np.abs(k0)))


def bitwise_equal(k, k0):
    k, k0 = np.asarray(k, dtype=complex), np.asarray(k0, dtype=complex)
    return k.shape == k0.shape and k.tobytes() == k0.tobytes()

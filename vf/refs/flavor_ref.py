"""Independent reference for eko's flavour-space algebra (engine F: C31, C32, C33, C46).

Every distribution is a dictionary ``pid -> Fraction`` typed by hand from
``doc/source/theory/FlavorSpace.rst`` (sections "+/- Basis", "QCD Evolution Basis", "Intrinsic QCD Evolution
Bases", "Unified Evolution Basis", "Intrinsic Unified Evolution Basis") and ``doc/source/theory/Matching.rst``
("Basis rotation", "QED basis rotation").  Nothing here imports eko: the integer tables of
``eko.basis_rotation`` and the weight functions of ``eko.evolution_operator.flavors`` are the code under test.

All arithmetic is exact (``fractions.Fraction``).
"""

from fractions import Fraction as F

# --------------------------------------------------------------------------- flavour basis

# FlavorSpace.rst "Flavor Basis" + docstring of flavor_basis_pids: gamma, tbar, bbar, cbar, sbar, ubar, dbar, g,
# d, u, s, c, b, t  (PDG Monte-Carlo numbering)
FLAVOR_PIDS = (22, -6, -5, -4, -3, -2, -1, 21, 1, 2, 3, 4, 5, 6)
FLAVOR_NAMES = {
    22: "ph", -6: "tbar", -5: "bbar", -4: "cbar", -3: "sbar", -2: "ubar", -1: "dbar",
    21: "g", 1: "d", 2: "u", 3: "s", 4: "c", 5: "b", 6: "t",
}  # fmt: skip
QUARK_PID = {"d": 1, "u": 2, "s": 3, "c": 4, "b": 5, "t": 6}
QUARKS_BY_MASS = "duscbt"  # the nf lightest quarks are the first nf letters
UPLIKE = "uct"
DOWNLIKE = "dsb"


def pm(sign, **coef):
    """``pm('+', u=1, d=-1)`` is u^+ - d^+ with q^+- = q +- qbar, as a dict pid -> Fraction."""
    out = {}
    for q, c in coef.items():
        pid = QUARK_PID[q]
        out[pid] = F(c)
        out[-pid] = F(c) if sign == "+" else -F(c)
    return out


# --------------------------------------------------------------------------- QCD evolution basis (nf = 6)

QCD_EVOL = {
    "ph": {22: F(1)},
    "g": {21: F(1)},
    "S": pm("+", u=1, d=1, s=1, c=1, b=1, t=1),
    "V": pm("-", u=1, d=1, s=1, c=1, b=1, t=1),
    "V3": pm("-", u=1, d=-1),
    "V8": pm("-", u=1, d=1, s=-2),
    "V15": pm("-", u=1, d=1, s=1, c=-3),
    "V24": pm("-", u=1, d=1, s=1, c=1, b=-4),
    "V35": pm("-", u=1, d=1, s=1, c=1, b=1, t=-5),
    "T3": pm("+", u=1, d=-1),
    "T8": pm("+", u=1, d=1, s=-2),
    "T15": pm("+", u=1, d=1, s=1, c=-3),
    "T24": pm("+", u=1, d=1, s=1, c=1, b=-4),
    "T35": pm("+", u=1, d=1, s=1, c=1, b=1, t=-5),
}
# pid convention: Sigma=100, V=200, T_k = 100+k, V_k = 200+k with k = n^2-1
QCD_EVOL_PIDS = {
    "ph": 22, "S": 100, "g": 21, "V": 200,
    "V3": 203, "V8": 208, "V15": 215, "V24": 224, "V35": 235,
    "T3": 103, "T8": 108, "T15": 115, "T24": 124, "T35": 135,
}  # fmt: skip

# --------------------------------------------------------------------------- unified evolution basis (nf = 6)

UNIFIED_EVOL = {
    "g": {21: F(1)},
    "ph": {22: F(1)},
    "S": pm("+", u=1, c=1, t=1, d=1, s=1, b=1),
    "Sdelta": pm("+", u=1, c=1, t=1, d=-1, s=-1, b=-1),
    "V": pm("-", u=1, c=1, t=1, d=1, s=1, b=1),
    "Vdelta": pm("-", u=1, c=1, t=1, d=-1, s=-1, b=-1),
    "Td3": pm("+", d=1, s=-1),
    "Vd3": pm("-", d=1, s=-1),
    "Tu3": pm("+", u=1, c=-1),
    "Vu3": pm("-", u=1, c=-1),
    "Td8": pm("+", d=1, s=1, b=-2),
    "Vd8": pm("-", d=1, s=1, b=-2),
    "Tu8": pm("+", u=1, c=1, t=-2),
    "Vu8": pm("-", u=1, c=1, t=-2),
}
# pid convention (comment at unified_evol_basis_pids): Sdelta=101, Vdelta=201, pid(T^u_k)=100+k+1, pid(T^d_k)=100+k+2
UNIFIED_EVOL_PIDS = {
    "g": 21, "ph": 22, "S": 100, "Sdelta": 101, "V": 200, "Vdelta": 201,
    "Td3": 105, "Vd3": 205, "Tu3": 104, "Vu3": 204,
    "Td8": 110, "Vd8": 210, "Tu8": 109, "Vu8": 209,
}  # fmt: skip

# --------------------------------------------------------------------------- intrinsic bases


def heavy_pm(nf):
    """h^+, h^- of the quarks that are not among the nf light ones."""
    out = {}
    for q in QUARKS_BY_MASS[nf:]:
        out[f"{q}+"] = pm("+", **{q: 1})
        out[f"{q}-"] = pm("-", **{q: 1})
    return out


def intrinsic_qcd(nf):
    """F_{iev,nf}: gamma, g, Sigma_(nf), V_(nf), the T_k/V_k with k <= nf^2-1 and h^+- of the heavier quarks."""
    if nf not in (3, 4, 5, 6):
        raise ValueError(nf)
    light = {q: 1 for q in QUARKS_BY_MASS[:nf]}
    basis = {"ph": {22: F(1)}, "g": {21: F(1)}, "S": pm("+", **light), "V": pm("-", **light)}
    for n in range(2, nf + 1):
        k = n * n - 1
        basis[f"V{k}"] = dict(QCD_EVOL[f"V{k}"])
        basis[f"T{k}"] = dict(QCD_EVOL[f"T{k}"])
    basis.update(heavy_pm(nf))
    return basis


# typed case by case from "Intrinsic Unified Evolution Basis"
_UNI_DELTA = {
    3: dict(u=2, d=-1, s=-1),
    4: dict(u=1, c=1, d=-1, s=-1),
    5: dict(u=F(3, 2), c=F(3, 2), d=-1, s=-1, b=-1),
    6: dict(u=1, c=1, t=1, d=-1, s=-1, b=-1),
}
_UNI_NS = {
    3: ["d3"],
    4: ["d3", "u3"],
    5: ["d3", "u3", "d8"],
    6: ["d3", "u3", "d8", "u8"],
}


def intrinsic_unified(nf):
    """F_{uni,iev,nf}."""
    if nf not in (3, 4, 5, 6):
        raise ValueError(nf)
    light = {q: 1 for q in QUARKS_BY_MASS[:nf]}
    basis = {
        "ph": {22: F(1)},
        "g": {21: F(1)},
        "S": pm("+", **light),
        "Sdelta": pm("+", **_UNI_DELTA[nf]),
        "V": pm("-", **light),
        "Vdelta": pm("-", **_UNI_DELTA[nf]),
    }
    for tag in _UNI_NS[nf]:
        basis[f"T{tag}"] = dict(UNIFIED_EVOL[f"T{tag}"])
        basis[f"V{tag}"] = dict(UNIFIED_EVOL[f"V{tag}"])
    basis.update(heavy_pm(nf))
    return basis


def intrinsic(nf, qed):
    return intrinsic_unified(nf) if qed else intrinsic_qcd(nf)


def active_basis(nf, qed):
    """The intrinsic basis without the static h^+- (and, in pure QCD, without the spectator photon)."""
    b = {k: v for k, v in intrinsic(nf, qed).items() if not (k[-1] in "+-")}
    if not qed:
        del b["ph"]
    return b


def active_pids(nf, qed):
    pids = [21] + [s * QUARK_PID[q] for q in QUARKS_BY_MASS[:nf] for s in (1, -1)]
    if qed:
        pids.append(22)
    return sorted(pids)


# --------------------------------------------------------------------------- anomalous-dimension sectors

# sector label -> list of (source, target) evolution-basis names; a *row* vector `source` is sent to `target`
_NS_QCD = {10101: "T", 10201: "V"}
QCD_SECTOR_LABELS = ((100, 100), (100, 21), (21, 100), (21, 21), (10201, 0), (10101, 0), (10200, 0))
_SING_UNI = {21: "g", 22: "ph", 100: "S", 101: "Sdelta"}
_VAL_UNI = {10200: "V", 10204: "Vdelta"}
_NS_UNI = {10102: "Tu", 10103: "Td", 10202: "Vu", 10203: "Vd"}
QED_SECTOR_LABELS = (
    tuple((a, b) for a in (21, 22, 100, 101) for b in (21, 22, 100, 101))
    + tuple((a, b) for a in (10200, 10204) for b in (10200, 10204))
    + ((10103, 0), (10203, 0), (10102, 0), (10202, 0))
)


def sector_members(label, nf, qed):
    """(source, target) name pairs of an anomalous-dimension sector that are active with nf flavours."""
    a, b = label
    act = active_basis(nf, qed)
    if not qed:
        if b != 0:
            names = {100: "S", 21: "g"}
            pairs = [(names[a], names[b])]
        elif a == 10200:
            pairs = [("V", "V")]
        else:
            pairs = [(f"{_NS_QCD[a]}{n * n - 1}",) * 2 for n in range(2, 7)]
    else:
        if a in _SING_UNI and b in _SING_UNI:
            pairs = [(_SING_UNI[a], _SING_UNI[b])]
        elif a in _VAL_UNI and b in _VAL_UNI:
            pairs = [(_VAL_UNI[a], _VAL_UNI[b])]
        elif a in _NS_UNI and b == 0:
            pairs = [(f"{_NS_UNI[a]}{k}",) * 2 for k in (3, 8)]
        else:
            raise KeyError(label)
    return [(s, t) for s, t in pairs if s in act and t in act]


def is_diagonal(label, qed):
    a, b = label
    return b == 0 or a == b


# --------------------------------------------------------------------------- exact linear algebra on dicts / lists


def dot(u, v):
    return sum((c * v[p] for p, c in u.items() if p in v), F(0))


def axpy(acc, c, v):
    """acc += c * v (in place, zeros removed)."""
    for p, x in v.items():
        acc[p] = acc.get(p, F(0)) + c * x
        if acc[p] == 0:
            del acc[p]
    return acc


def clean(v):
    return {p: F(c) for p, c in v.items() if c != 0}


def to_vec(d, pids=FLAVOR_PIDS):
    return [F(d.get(p, 0)) for p in pids]


def from_vec(row, pids=FLAVOR_PIDS):
    return {p: F(c) for p, c in zip(pids, row) if c != 0}


def basis_matrix(basis, labels=None, pids=FLAVOR_PIDS):
    labels = list(basis) if labels is None else labels
    return [to_vec(basis[lab], pids) for lab in labels]


def mat_inverse(m):
    """Exact Gauss-Jordan inverse of a square list-of-lists of Fractions; raises ZeroDivisionError if singular."""
    n = len(m)
    a = [list(map(F, row)) + [F(int(i == j)) for j in range(n)] for i, row in enumerate(m)]
    for col in range(n):
        piv = next((r for r in range(col, n) if a[r][col] != 0), None)
        if piv is None:
            raise ZeroDivisionError("singular matrix")
        a[col], a[piv] = a[piv], a[col]
        p = a[col][col]
        a[col] = [x / p for x in a[col]]
        for r in range(n):
            if r != col and a[r][col] != 0:
                f = a[r][col]
                a[r] = [x - f * y for x, y in zip(a[r], a[col])]
    return [row[n:] for row in a]


def mat_mul(a, b):
    return [[sum((a[i][k] * b[k][j] for k in range(len(b))), F(0)) for j in range(len(b[0]))] for i in range(len(a))]


def mat_rank(m):
    a = [list(map(F, row)) for row in m]
    rank = 0
    rows, cols = len(a), len(a[0])
    for col in range(cols):
        piv = next((r for r in range(rank, rows) if a[r][col] != 0), None)
        if piv is None:
            continue
        a[rank], a[piv] = a[piv], a[rank]
        for r in range(rows):
            if r != rank and a[r][col] != 0:
                f = a[r][col] / a[rank][col]
                a[r] = [x - f * y for x, y in zip(a[r], a[rank])]
        rank += 1
    return rank


def to_fraction(x, max_den=10000, tol=1e-12):
    """Float -> nearby small Fraction; returns None if the float is not within tol of one."""
    x = float(x)
    if x != x or x in (float("inf"), float("-inf")):
        return None
    fr = F(x).limit_denominator(max_den)
    if abs(float(fr) - float(x)) > tol * max(1.0, abs(float(x))):
        return None
    return fr


# --------------------------------------------------------------------------- matching rotation (Matching.rst)


def nu(nf):
    """Number of up-like flavours among the nf lightest (d,u,s,c,b,t)."""
    return sum(1 for q in QUARKS_BY_MASS[:nf] if q in UPLIKE)


def nd(nf):
    return nf - nu(nf)


def qed_rotation_parameters_doc(n):
    """a..f of Matching.rst "QED basis rotation"; n is the number of flavours *below* the threshold."""
    h = QUARKS_BY_MASS[n]  # the quark being activated
    up = h in UPLIKE
    a = F(1, n) * (F(nd(n + 1), nu(n + 1)) * nu(n) - nd(n))
    b = F(n + 1, nu(n + 1)) * F(nu(n), n)
    c = F(nd(n + 1), nu(n + 1)) if up else F(-1)
    d = F(nu(n), n) if up else F(nd(n), n)
    e = F(nu(n), n) if up else -F(nu(n), n)
    f = F(-1) if h in "sc" else F(-2)
    return a, b, c, d, e, f


def self_check():
    """The reference bases must be orthogonal bases of the 14-dimensional flavour space (harness invariant)."""
    for qed in (False, True):
        for nf in (3, 4, 5, 6):
            b = intrinsic(nf, qed)
            assert len(b) == 14, (qed, nf, len(b))
            assert mat_rank(basis_matrix(b)) == 14, (qed, nf)
            labs = list(b)
            for i, x in enumerate(labs):
                for y in labs[i + 1 :]:
                    assert dot(b[x], b[y]) == 0, (qed, nf, x, y)
    assert intrinsic_qcd(6).keys() == QCD_EVOL.keys() and all(intrinsic_qcd(6)[k] == QCD_EVOL[k] for k in QCD_EVOL)
    assert all(intrinsic_unified(6)[k] == UNIFIED_EVOL[k] for k in UNIFIED_EVOL)
    return True

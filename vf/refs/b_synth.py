"""Engine B helpers (C43, C44, C45): synthetic EKOs through the public API, PDF-like tables, plain reference
contractions, an independent log-Lagrange interpolation matrix and a parser for LHAPDF ``.dat`` / ``.info`` files.

Nothing here calls ``ekobox``; ``eko`` is used only to *create* the archives (``EKO.create(path).load_cards(theory,
operator).build()`` and ``eko[ep] = Operator(...)``, exactly as ``tests/conftest.py::EKOFactory`` does).
"""

from __future__ import annotations

import math
import pathlib
import shutil
import tempfile

import numpy as np

from vf import runner_util as ru

# FlavorSpace.rst "Flavor Basis": gamma, tbar, bbar, cbar, sbar, ubar, dbar, g, d, u, s, c, b, t
FLAV = (22, -6, -5, -4, -3, -2, -1, 21, 1, 2, 3, 4, 5, 6)
NF = len(FLAV)


# --------------------------------------------------------------------------- directories


def fresh_dir(prefix="vfb-"):
    return pathlib.Path(tempfile.mkdtemp(prefix=prefix))


def remove_dir(d):
    shutil.rmtree(d, ignore_errors=True)


# --------------------------------------------------------------------------- grids, cards


def make_xgrid(n, xmin, jitter):
    """Geometric grid from xmin to 1 with multiplicative jitter of the log steps (``jitter`` has n-1 entries)."""
    steps = np.asarray(jitter[: n - 1], dtype=float)
    cum = np.cumsum(steps)
    logs = math.log(xmin) * (1.0 - cum / cum[-1])
    xs = [float(xmin)] + [float(math.exp(v)) for v in logs]
    xs[-1] = 1.0
    return xs


def card_case(xgrid, deg, init, mugrid, qed=0, qcd=1, **extra):
    """The flat card dictionary understood by ``vf.runner_util.cards``."""
    c = dict(order=[qcd, qed], init=list(init), mugrid=[list(p) for p in mugrid], xgrid=list(xgrid), deg=int(deg))
    c.update(extra)
    return c


def ep_of(point):
    """Evolution point key (mu^2, nf) of a (mu, nf) card entry – as ``OperatorCard.evolgrid`` defines it."""
    return (float(point[0]) ** 2, int(point[1]))


# --------------------------------------------------------------------------- random tensors


def random_operator(rng, n, kind="dense", unit=None):
    """An operator tensor (14, n, 14, n) with O(1) entries.

    dense : independent normal entries (generic, non-commuting)
    unit  : a single non-zero entry at ``unit = (a, j, b, k, value)`` on top of nothing (readable counterexamples)
    """
    if kind == "unit":
        a, j, b, k, v = unit
        op = np.zeros((NF, n, NF, n))
        op[a % NF, j % n, b % NF, k % n] = v
        return op
    return rng.normal(size=(NF, n, NF, n))


def random_error(rng, n):
    """A non-negative error tensor, same shape, entries O(0.1)."""
    return 0.1 * rng.uniform(size=(NF, n, NF, n))


def as_matrix(t):
    """(14, n, 14, n) -> (14 n, 14 n) with the (flavour, x) pairs linearised."""
    s = t.shape
    return np.asarray(t, dtype=float).reshape(s[0] * s[1], s[2] * s[3])


def as_tensor(m, n):
    return np.asarray(m).reshape(NF, n, NF, n)


# --------------------------------------------------------------------------- synthetic EKO


def build_eko(path, theory, operator, tensors):
    """Create an EKO archive at ``path`` holding ``tensors = {(mu2, nf): (op, err|None)}``; returns the open EKO."""
    from eko.io.struct import EKO, Operator

    eko = EKO.create(pathlib.Path(path)).load_cards(theory, operator).build()
    for ep, (op, err) in tensors.items():
        eko[ep] = Operator(operator=np.array(op), error=None if err is None else np.array(err))
    return eko


def read_all(path):
    """{(mu2, nf): (op, err|None)} of an archive, read with a fresh ``EKO.read``."""
    from eko.io.struct import EKO

    out = {}
    eko = EKO.read(pathlib.Path(path))
    try:
        for ep, op in eko.items():
            out[(float(ep[0]), int(ep[1]))] = (
                np.array(op.operator), None if op.error is None else np.array(op.error))
    finally:
        eko.close()
    return out


def safe_close(eko):
    """Close an EKO whose temporary directory may already be gone."""
    if eko is None:
        return
    try:
        if eko.access.open:
            eko.close()
    except FileNotFoundError:
        pass


# --------------------------------------------------------------------------- PDF-like tables


class TablePDF:
    """LHAPDF-like object: ``xf_pid(x, Q2) = (c x^a (1-x)^b + d) (1 + s ln(Q2))`` for the flavours present.

    ``params = {pid: [c, a, b, d, s]}``; flavours not in the table are missing (``hasFlavor`` False and ``xfxQ2``
    raising, so that an implementation which asks for a missing flavour is noticed)."""

    def __init__(self, params):
        self.params = {int(p): [float(v) for v in vals] for p, vals in params.items()}
        self.calls = []

    def hasFlavor(self, pid):  # noqa: N802 - LHAPDF interface
        return int(pid) in self.params

    def value(self, pid, x, q2):
        c, a, b, d, s = self.params[int(pid)]
        return (c * x**a * (1.0 - x) ** b + d) * (1.0 + s * math.log(q2))

    def xfxQ2(self, pid, x, q2):  # noqa: N802 - LHAPDF interface
        if int(pid) not in self.params:
            raise KeyError(f"harness PDF asked for missing flavour {pid}")
        self.calls.append(float(q2))
        return self.value(pid, float(x), float(q2))


def random_pdf_params(rng, missing):
    params = {}
    for pid in FLAV:
        if pid in missing:
            continue
        params[pid] = [
            float(rng.uniform(0.5, 3.0)), float(rng.uniform(0.0, 1.5)), float(rng.uniform(1.0, 4.0)),
            float(rng.uniform(-0.5, 0.5)), float(rng.uniform(-0.1, 0.1)),
        ]
    return params


def input_table(pdf, xgrid, mu20):
    """f[b][k] = xf_b(x_k, mu0^2)/x_k, zero rows for missing flavours (the documented division by x)."""
    f = np.zeros((NF, len(xgrid)))
    for b, pid in enumerate(FLAV):
        if not pdf.hasFlavor(pid):
            continue
        for k, x in enumerate(xgrid):
            f[b, k] = pdf.value(pid, x, mu20) / x
    return f


# --------------------------------------------------------------------------- reference contractions


def contract(op, f):
    """out[a][j] = sum_{b,k} op[a,j,b,k] f[b,k]  (explicit loops over the output, plain dot over the input)."""
    op = np.asarray(op, dtype=float)
    na, nj = op.shape[0], op.shape[1]
    out = np.zeros((na, nj))
    for a in range(na):
        for j in range(nj):
            acc = 0.0
            for b in range(op.shape[2]):
                acc += float(np.dot(op[a, j, b, :], f[b, :]))
            out[a, j] = acc
    return out


def contract_scale(op, f):
    """sum |op| |f| per output entry: the magnitude entering the cancellation (tolerance scale)."""
    return contract(np.abs(op), np.abs(f))


def compose(later, earlier):
    """(later o earlier)[a,j,c,l] = sum_{b,k} later[a,j,b,k] earlier[b,k,c,l] via plain matrix product."""
    n = later.shape[1]
    return as_tensor(as_matrix(later) @ as_matrix(earlier), n)


# --------------------------------------------------------------------------- independent interpolation matrix


def interp_matrix(xgrid, deg, targets, with_amplification=False, log=True):
    """R[i][j] = p_j(target_i): Lagrange interpolation as documented in doc/source/theory/Interpolation.rst, in the
    variable t = ln x (``log=True``, the documented default) or t = x (``log=False``, interpolation_is_log False).

    With ``with_amplification`` also A[i][j] = prod_{k != j} (|t| + |t_k|) / |t_j - t_k| >= sum_i |c_i| |t|^i, the
    bound on the size of the monomial terms of p_j at the target (what a monomial-form evaluation rounds against).

    Areas A_j = (x_j, x_{j+1}]; the block of deg+1 points in which the area lies most central (for a tie the one
    closer to x = 1), shifted inside the grid at the borders; Lagrange polynomials in ln x in product form."""
    tr = math.log if log else float
    t = [tr(x) for x in xgrid]
    n = len(t)
    below = (deg - 1) // 2

    def block(area):
        kmin = max(0, area - below)
        kmax = kmin + deg
        if kmax > n - 1:
            kmax = n - 1
            kmin = kmax - deg
        return kmin, kmax

    rows, amps = [], []
    for x in targets:
        lx = tr(x)
        if not (t[0] - 1e-14 * max(1.0, abs(t[0])) <= lx <= t[-1] + 1e-14 * max(1.0, abs(t[-1]))):
            raise ValueError(f"target {x} outside the grid")
        area = 0
        for i in range(n - 1):
            if t[i] < lx <= t[i + 1]:
                area = i
        kmin, kmax = block(area)
        row, amp = [0.0] * n, [0.0] * n
        for j in range(kmin, kmax + 1):
            w = 1.0
            for k in range(kmin, kmax + 1):
                if k != j:
                    w *= (lx - t[k]) / (t[j] - t[k])
            row[j] = w
        # amplification: a target within rounding of a node may be attributed to either adjacent area (the
        # logarithms of grid and target are not guaranteed to round identically); p_j is continuous there
        areas = {area}
        for i in range(1, n - 1):
            if abs(lx - t[i]) <= 1e-14 * max(1.0, abs(t[i])):
                areas.update((i - 1, i))
        for ar in areas:
            lo, hi = block(ar)
            for j in range(lo, hi + 1):
                a = 1.0
                for k in range(lo, hi + 1):
                    if k != j:
                        a *= (abs(lx) + abs(t[k])) / abs(t[j] - t[k])
                amp[j] = max(amp[j], a)
        rows.append(row)
        amps.append(amp)
    if with_amplification:
        return np.array(rows), np.array(amps)
    return np.array(rows)


# --------------------------------------------------------------------------- LHAPDF file parser (harness-owned)


def parse_dat(path):
    """Parse an lhagrid1 member file: (header dict, [block dict(x, q, pids, data[ix][iq][ipid])])."""
    text = pathlib.Path(path).read_text(encoding="utf-8")
    if not text.endswith("---\n"):
        raise ValueError(f"{path}: file does not end with a block separator")
    chunks = text.split("---\n")
    head = {}
    for line in chunks[0].splitlines():
        key, _, val = line.partition(":")
        head[key.strip()] = val.strip()
    blocks = []
    for chunk in chunks[1:-1]:
        lines = chunk.splitlines()
        xs = [float(v) for v in lines[0].split()]
        qs = [float(v) for v in lines[1].split()]
        pids = [int(v) for v in lines[2].split()]
        rows = [[float(v) for v in ln.split()] for ln in lines[3:]]
        if len(rows) != len(xs) * len(qs):
            raise ValueError(f"{path}: {len(rows)} data lines for {len(xs)} x {len(qs)} nodes")
        data = np.array(rows).reshape(len(xs), len(qs), len(pids))
        blocks.append(dict(x=xs, q=qs, pids=pids, data=data, text=lines))
    if chunks[-1] != "":
        raise ValueError(f"{path}: trailing text after the last block")
    return head, blocks


def _scalar(tok):
    tok = tok.strip()
    if tok in ("null", "~", ""):
        return None
    if tok in ("true", "false"):
        return tok == "true"
    if len(tok) >= 2 and tok[0] == tok[-1] and tok[0] in "'\"":
        return tok[1:-1]
    if tok in (".inf", ".Inf", "+.inf"):
        return math.inf
    if tok == "-.inf":
        return -math.inf
    if tok in (".nan", ".NaN"):
        return math.nan
    try:
        return int(tok)
    except ValueError:
        pass
    try:
        return float(tok)
    except ValueError:
        return tok


def parse_info(path):
    """Parse an LHAPDF ``.info`` file (one ``Key: value`` per line, flow-style lists)."""
    out = {}
    for line in pathlib.Path(path).read_text(encoding="utf-8").splitlines():
        if not line.strip():
            continue
        key, sep, val = line.partition(":")
        if not sep:
            raise ValueError(f"{path}: line without key: {line!r}")
        val = val.strip()
        if val.startswith("[") and val.endswith("]"):
            inner = val[1:-1].strip()
            out[key.strip()] = [] if not inner else [_scalar(t) for t in inner.split(",")]
        else:
            out[key.strip()] = _scalar(val)
    return out


# --------------------------------------------------------------------------- misc


def close(a, b, rel, absolute=0.0):
    return abs(a - b) <= rel * max(abs(a), abs(b)) + absolute


def msbar_theory_extra(rng_u):
    """Consistent MSbar mass inputs around alpha_s(91.2 GeV, nf=5): charm and bottom given above their mass (backward
    running), top below (forward running) or at the fixed point; ``rng_u`` = three floats in [0, 1] and three modes."""
    (uc, ub, ut), (mc_mode, mb_mode, mt_mode) = rng_u
    masses, refs = [], []
    # charm: m_c(Q) for Q in the nf=4 patch above the mass
    if mc_mode == "equal":
        masses.append(1.27 + 0.2 * uc); refs.append(masses[-1])
    else:
        masses.append(0.95 + 0.15 * uc); refs.append(2.5 + uc)
    if mb_mode == "equal":
        masses.append(4.1 + 0.3 * ub); refs.append(masses[-1])
    else:
        masses.append(3.4 + 0.4 * ub); refs.append(8.0 + 6.0 * ub)
    if mt_mode == "equal":
        masses.append(160.0 + 8.0 * ut); refs.append(masses[-1])
    else:
        masses.append(166.0 + 6.0 * ut); refs.append(100.0 + 40.0 * ut)
    return dict(scheme="MSBAR", masses=masses, mass_refs=refs, ref=[91.2, 5], alphas=0.118)

"""Engine Q reference: the coupled QCD x QED renormalisation group equations, integrated independently.

Conventions (doc/source/theory/pQCD.rst, eko.beta docstring): a = alpha/(4 pi), t = ln mu^2,

    da_s /dt = - a_s^2  ( sum_{k<n_qcd} beta_k a_s^k  +  [qed>=1] beta^(2,1) a_em )
    da_em/dt = - a_em^2 ( sum_{k<n_qed} beta^(0,2+k) a_em^k + [qed>=1] beta^(1,2) a_s )      (alpha_em running)
    da_em/dt = 0                                                                           (alpha_em fixed / qed=0)

The coefficients come from the literature tables typed in ``vf.props.c20_coefficients`` (Herzog et al. 2017,
Surguladze 1996) - *not* from ``eko.beta``.  The number of leptons is 2 below and 3 above the tau mass (PDG:
m_tau = 1.777 GeV, typed here), so an integration crossing m_tau^2 is split there.

Nothing in this file imports eko.
"""

from __future__ import annotations

import functools
import math

import numpy as np

MTAU = 1.777  # GeV, PDG value rounded to the 3 decimals the documentation quotes
FOURPI = 4.0 * math.pi


@functools.lru_cache(maxsize=None)
def coeff(name: str, nf: int, nl: int = 3) -> float:
    from vf.props.c20_coefficients import ref_value

    return float(ref_value(name, nf, nl))


def beta_qcd_vec(n_qcd: int, nf: int):
    return [coeff(f"beta_qcd:{k + 2},0", nf) for k in range(n_qcd)]


def beta_qed_vec(n_qed: int, nf: int, nl: int):
    return [coeff(f"beta_qed:0,{k + 2}", nf, nl) for k in range(n_qed)]


def lepton_number(mu2: float) -> int:
    return 3 if mu2 > MTAU**2 else 2


def rhs(order, nf, nl, em_running):
    """Right-hand side f(t, [a_s, a_em]) of the truncated coupled RGE."""
    n_qcd, n_qed = order
    bs = beta_qcd_vec(n_qcd, nf)
    mix_s = coeff("beta_qcdx:2,1", nf) if n_qed >= 1 else 0.0
    if n_qed >= 1 and em_running:
        be = beta_qed_vec(n_qed, nf, nl)
        mix_e = coeff("beta_qed:1,2", nf, nl)
    else:
        be, mix_e = [], 0.0

    def f(_t, y):
        a, e = y
        ds = -a * a * (sum(b * a**k for k, b in enumerate(bs)) + mix_s * e)
        de = -e * e * (sum(b * e**k for k, b in enumerate(be)) + mix_e * a) if be else 0.0
        return [ds, de]

    return f


class NonPerturbative(Exception):
    """The reference integration ran into the Landau region (outside the documented domain)."""


def _integrate(f, t0, t1, y0, rtol, a_cap):
    from scipy.integrate import solve_ivp

    if t0 == t1:
        return np.array(y0, dtype=float)

    def blow(_t, y):
        return a_cap - y[0]

    blow.terminal = True
    sol = solve_ivp(f, (t0, t1), list(y0), method="DOP853", rtol=rtol, atol=1e-22, events=blow)
    if sol.status == 1:
        raise NonPerturbative(f"a_s exceeded {a_cap} between t={t0} and t={t1}")
    if sol.status != 0 or not np.all(np.isfinite(sol.y[:, -1])):
        raise NonPerturbative(f"solve_ivp status {sol.status}: {sol.message}")
    return sol.y[:, -1]


def evolve(order, nf, em_running, a_ref, mu2_from, mu2_to, rtol=1e-13, a_cap=0.08):
    """Reference solution [a_s, a_em](mu2_to) inside a fixed-nf patch.

    ``a_cap`` = 0.08 corresponds to alpha_s = 1: beyond that the case is declared non-perturbative.
    The lepton number switches at MTAU^2 (only relevant if alpha_em runs)."""
    y = np.array(a_ref, dtype=float)
    t0, t1 = math.log(mu2_from), math.log(mu2_to)
    nli, nlf = lepton_number(mu2_from), lepton_number(mu2_to)
    if order[1] != 0 and em_running and nli != nlf:
        tm = math.log(MTAU**2)
        y = _integrate(rhs(order, nf, nli, em_running), t0, tm, y, rtol, a_cap)
        y = _integrate(rhs(order, nf, nlf, em_running), tm, t1, y, rtol, a_cap)
    else:
        y = _integrate(rhs(order, nf, nli, em_running), t0, t1, y, rtol, a_cap)
    return y


def lo_closed_form(a_ref, beta0, u):
    return a_ref / (1.0 + beta0 * a_ref * u)


def selftest():
    """The integrator reproduces the LO closed form and the implicit NLO solution to ~1e-12."""
    a0, nf = 0.02, 4
    b0 = coeff("beta_qcd:2,0", nf)
    b1 = coeff("beta_qcd:3,0", nf)
    for u in (-1.5, 0.3, 6.0):
        got = evolve((1, 0), nf, False, [a0, 1e-3], 10.0, 10.0 * math.exp(u))[0]
        want = lo_closed_form(a0, b0, u)
        assert abs(got - want) <= 1e-11 * want, (u, got, want)
        # NLO: implicit solution  1/a - 1/a0 + (b1/b0) ln( a (b0 + b1 a0) / (a0 (b0 + b1 a)) ) = b0 u
        a = evolve((2, 0), nf, False, [a0, 1e-3], 10.0, 10.0 * math.exp(u))[0]
        lhs = 1 / a - 1 / a0 + (b1 / b0) * math.log(a * (b0 + b1 * a0) / (a0 * (b0 + b1 * a)))
        assert abs(lhs - b0 * u) <= 1e-9 * abs(b0 * u), (u, lhs, b0 * u)
    return True

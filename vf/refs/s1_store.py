"""Engine S helpers shared by the store checks C36 / C37 / C39.

Everything here is harness code: deterministic array builders (from integer seeds drawn by Hypothesis), decoding of
JSON evolution points into Python / NumPy numbers, bitwise comparison, a per-case sandbox that owns *every* temporary
directory the store creates during a case, and a NaN-aware structural comparison for raw cards.
"""

from __future__ import annotations

import functools
import hashlib
import json
import math
import pathlib
import shutil
import tempfile

import numpy as np

# --------------------------------------------------------------------------- sandbox


class Sandbox:
    """Per-case directory from ``tempfile.mkdtemp()`` (TMPDIR points into /verif/.work).

    While active, ``tempfile.tempdir`` points *inside* it, so the ``eko-*`` directories the store makes with
    ``tempfile.mkdtemp`` (and leaks whenever a session is abandoned or a ``with`` body raises) are removed with the
    case, whatever happened.
    """

    def __enter__(self):
        self.dir = pathlib.Path(tempfile.mkdtemp(prefix="s1-"))
        self._old = tempfile.tempdir
        inner = self.dir / "tmp"
        inner.mkdir()
        tempfile.tempdir = str(inner)
        return self

    def close(self):
        tempfile.tempdir = self._old
        shutil.rmtree(self.dir, ignore_errors=True)

    def __exit__(self, *exc):
        self.close()
        return False


@functools.lru_cache(maxsize=64)
def _cards_cached(key):
    from vf import runner_util as ru

    return ru.cards(json.loads(key))


def cards(case=None):
    """(TheoryCard, OperatorCard) built through ``from_dict`` from a runner_util card case (cached, never mutated)."""
    return _cards_cached(json.dumps(case or {}, sort_keys=True))


def sha256(path):
    return hashlib.sha256(pathlib.Path(path).read_bytes()).hexdigest()


def tar_content(path):
    """mtime-independent content of an archive: {member name: (type, sha256 of data)}."""
    import tarfile

    out = {}
    with tarfile.open(path) as tar:
        for m in tar.getmembers():
            data = tar.extractfile(m).read() if m.isfile() else b""
            out[m.name] = (m.type.decode() if isinstance(m.type, bytes) else str(m.type), hashlib.sha256(data).hexdigest())
    return out


# --------------------------------------------------------------------------- evolution points

SCALE_TYPES = {
    "f": float,
    "n": np.float64,
    "i": int,
    "j": np.int64,
}
NF_TYPES = {"i": int, "n": np.int64}


def ep_of(k):
    """JSON key ``[scale, nf, ty]`` -> (evolution point as given to the store, model key (float, int)).

    ``ty`` = two characters: scale as python float / np.float64 / python int / np.int64 ("f", "n", "i", "j") and nf
    as python int / np.int64 ("i", "n").  Integer types require an integer-valued scale.
    """
    s, nf = k[0], k[1]
    ty = k[2] if len(k) > 2 else "fi"
    if ty[0] in "ij" and float(s) != int(s):
        raise ValueError(f"integer scale type for non-integer scale {s}")
    scale = SCALE_TYPES[ty[0]](int(s) if ty[0] in "ij" else s)
    nfo = NF_TYPES[ty[1]](nf)
    return (scale, nfo), (float(s), int(nf))


def mkey(ep):
    """Evolution point as returned by the store -> model key."""
    return (float(ep[0]), int(ep[1]))


def is_numpy_key(k):
    ty = k[2] if len(k) > 2 else "fi"
    return ty[0] in "nj" or ty[1] == "n"


# --------------------------------------------------------------------------- arrays

# +0, -0, +inf, -inf, quiet nan, quiet nan with payload, signalling nan, negative nan with payload,
# smallest denormal, largest finite, 1 + ulp
SPECIAL_BITS = [
    0x0000000000000000,
    0x8000000000000000,
    0x7FF0000000000000,
    0xFFF0000000000000,
    0x7FF8000000000000,
    0x7FF8000000000123,
    0x7FF0000000000001,
    0xFFF80000DEADBEEF,
    0x0000000000000001,
    0x7FEFFFFFFFFFFFFF,
    0x3FF0000000000001,
]


def make_array(spec):
    """Deterministic float64 array from ``{"seed": int, "mode": str, "shape": [...], "order": "C"|"F"|"S"}``.

    modes: "unit" (standard normal), "bits" (uniform random 64-bit patterns viewed as float64), "special" (normal with
    the SPECIAL_BITS patterns written at seeded positions), "mzero" (all -0.0).  order "F" = Fortran layout,
    "S" = non-contiguous strided view.
    """
    shape = tuple(int(x) for x in spec["shape"])
    n = int(np.prod(shape)) if shape else 1
    rng = np.random.default_rng(int(spec["seed"]))
    mode = spec.get("mode", "unit")
    if mode == "bits":
        flat = rng.integers(0, 2**64, size=n, dtype=np.uint64).view(np.float64)
    elif mode == "mzero":
        flat = np.full(n, -0.0)
    else:
        flat = rng.standard_normal(n)
        if mode == "special" and n > 0:
            pos = rng.permutation(n)[: len(SPECIAL_BITS)]
            start = int(rng.integers(0, len(SPECIAL_BITS)))
            bits = flat.view(np.uint64)
            for j, p in enumerate(pos):
                bits[p] = SPECIAL_BITS[(start + j) % len(SPECIAL_BITS)]
    a = np.array(flat, dtype=np.float64).reshape(shape)
    order = spec.get("order", "C")
    if order == "F":
        a = np.asfortranarray(a)
    elif order == "S" and a.ndim >= 1 and a.size > 0:
        big = np.zeros(shape[:-1] + (2 * shape[-1],))
        big[..., ::2] = a
        a = big[..., ::2]
    return a


def frozen(a):
    """Bitwise identity of an array: (shape, dtype string, bytes in C order); None stays None."""
    if a is None:
        return None
    a = np.asarray(a)
    return (tuple(a.shape), a.dtype.str, a.tobytes())


def describe_diff(want, got):
    """Short text for two ``frozen`` values that differ."""
    if want is None or got is None:
        return f"expected {'no array' if want is None else 'an array'}, got {'no array' if got is None else 'an array'}"
    if want[0] != got[0] or want[1] != got[1]:
        return f"shape/dtype {want[0]} {want[1]} -> {got[0]} {got[1]}"
    w = np.frombuffer(want[2], dtype=np.uint64) if len(want[2]) % 8 == 0 else None
    g = np.frombuffer(got[2], dtype=np.uint64) if len(got[2]) % 8 == 0 else None
    if w is None or g is None or len(w) != len(g):
        return "byte length differs"
    idx = np.nonzero(w != g)[0]
    i = int(idx[0])
    return f"{len(idx)} of {len(w)} entries differ bitwise; first at flat index {i}: 0x{int(w[i]):016x} -> 0x{int(g[i]):016x}"


def make_operator(op_spec, err_spec=None):
    from eko.io.items import Operator

    return Operator(make_array(op_spec), None if err_spec is None else make_array(err_spec))


def op_frozen(op):
    return (frozen(op.operator), frozen(op.error))


# --------------------------------------------------------------------------- raw structures


def norm(o):
    """Normalise a raw structure for comparison: tuples -> lists, numpy -> python, NaN -> "nan" marker."""
    if isinstance(o, dict):
        return {str(k): norm(v) for k, v in o.items()}
    if isinstance(o, (list, tuple)):
        return [norm(v) for v in o]
    if isinstance(o, np.ndarray):
        return norm(o.tolist())
    if isinstance(o, (bool, np.bool_)):
        return bool(o)
    if isinstance(o, (np.integer,)):
        return int(o)
    if isinstance(o, (float, np.floating)):
        f = float(o)
        return "nan" if math.isnan(f) else f
    return o


def raw_diff(a, b, path=""):
    """First difference between two normalised raw structures (exact: floats by ==, types must agree), or None."""
    a, b = norm(a), norm(b)
    return _diff(a, b, path)


def _diff(a, b, path):
    if isinstance(a, dict) and isinstance(b, dict):
        for k in sorted(set(a) | set(b)):
            if k not in a or k not in b:
                return f"{path}/{k}: present on one side only"
            d = _diff(a[k], b[k], f"{path}/{k}")
            if d:
                return d
        return None
    if isinstance(a, list) and isinstance(b, list):
        if len(a) != len(b):
            return f"{path}: length {len(a)} -> {len(b)}"
        for i, (x, y) in enumerate(zip(a, b)):
            d = _diff(x, y, f"{path}[{i}]")
            if d:
                return d
        return None
    if isinstance(a, bool) != isinstance(b, bool):
        return f"{path}: {a!r} -> {b!r}"
    if isinstance(a, (int, float)) and isinstance(b, (int, float)):
        return None if a == b else f"{path}: {a!r} -> {b!r}"
    return None if (type(a) is type(b) and a == b) else f"{path}: {a!r} -> {b!r}"


# --------------------------------------------------------------------------- history minimisation


def minimise_history(steps, still_fails, max_replays=200):
    """Greedy one-step-removal minimisation of a list of steps (harness side replacement for Hypothesis shrinking of
    collected, non-raising stateful runs).  ``still_fails(steps) -> bool`` replays a candidate."""
    steps = list(steps)
    replays = 0
    changed = True
    while changed and replays < max_replays:
        changed = False
        i = len(steps) - 1
        while i >= 0 and replays < max_replays:
            cand = steps[:i] + steps[i + 1 :]
            replays += 1
            if cand and still_fails(cand):
                steps = cand
                changed = True
            i -= 1
    return steps

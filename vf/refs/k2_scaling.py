"""Decision rule for "the difference vanishes at least like a^n" used by C08 / C09 / C12.

``diff(lam)`` must return the relative difference D(lam) between the kernel under test and its reference when both
couplings are multiplied by ``lam``.  Because the ratio a1/a0 is kept, the leading-order factor is unchanged and the
difference is an analytic function of lam:  D = |C_m lam^m + C_{m+1} lam^{m+1} + ...| with m the first order at
which the two disagree.  The property demands m >= n.

Rule (DESIGN section 2): lam in {1, 1/2, 1/4, 1/8}; a D is *usable* if it is >= 100 x the noise floor of the
reference; the exponent is measured on the two smallest usable lam and must be >= n - SLACK.  If fewer than two are
usable the case decides nothing (trivial).

Refinement needed for soundness (calibration on the unchanged tree, see the final report): with couplings up to
0.05 the sub-leading term C_{m+1} lam can still be 20-50 % of the leading one at lam = 1/8 and, when of opposite
phase, pulls the local exponent below n - 0.25 for *correct* code (exponents then rise towards n as lam decreases).
So a first verdict "too small" is only accepted after following the scaling further towards zero (lam = 1/16,
1/32, ... while usable), and only if the last two exponents confirm the trend (see the comment in the code): a
genuine lower-order term keeps the exponent below n all the way down; a correct method passes as soon as the
asymptotic regime is reached; a sequence still rising towards n when the noise floor is hit decides nothing
(status "undecided", counted as trivial).
"""

import math

LAMBDAS = (1.0, 0.5, 0.25, 0.125)
EXTRA = (1 / 16, 1 / 32, 1 / 64, 1 / 128, 1 / 256, 1 / 512, 1 / 1024)
SLACK = 0.25


def exponent_verdict(diff, n, floor):
    """Return dict(status= 'ok' | 'low' | 'undecided' | 'trivial' | 'nan', exponent=, lambdas=[..], D=[..])."""
    lams = list(LAMBDAS)
    D = [diff(lam) for lam in lams]
    usable_min = 100.0 * floor

    def last_pair():
        idx = [i for i, d in enumerate(D) if d >= usable_min and math.isfinite(d)]
        # only a contiguous run starting at the largest lambda is meaningful (D decreases with lambda)
        if len(idx) < 2:
            return None
        i, j = idx[-2], idx[-1]
        return i, j, math.log(D[i] / D[j]) / math.log(lams[i] / lams[j])

    if any(not math.isfinite(d) for d in D):
        return dict(status="nan", exponent=float("nan"), lambdas=lams, D=D)
    lp = last_pair()
    if lp is None:
        return dict(status="trivial", exponent=float("nan"), lambdas=lams, D=D)
    i, j, p = lp
    if p >= n - SLACK:
        return dict(status="ok", exponent=p, lambdas=lams, D=D)
    # in doubt: follow the scaling further towards zero while the difference stays measurable
    for lam in EXTRA:
        if j != len(D) - 1:  # the smallest lambda so far was already below the floor
            break
        d = diff(lam)
        lams.append(lam)
        D.append(d)
        if not math.isfinite(d) or d < usable_min:
            break
        i, j, p = last_pair()
        if p >= n - SLACK:
            return dict(status="ok", exponent=p, lambdas=lams, D=D)
    # The smallest usable pair still says "too small".  Accept that only if the trend confirms it: the next coarser
    # pair must say the same (a single low pair next to a high one is the signature of a sign change of the
    # difference, i.e. of pre-asymptotic behaviour), and with its exponent p_prev, 2 p - p_prev (linear extrapolation
    # of the local exponent to lambda -> 0) must stay below n - 2 SLACK.
    # A genuine lower-order term gives a flat or falling sequence (or one rising towards an integer <= n-1); correct
    # code whose leading coefficient happens to be small gives a sequence still rising towards n when the noise floor
    # stops the descent.  The latter decides nothing.
    idx = [k for k, d in enumerate(D) if d >= usable_min and math.isfinite(d)]
    if len(idx) < 3 or idx[-3:] != [idx[-1] - 2, idx[-1] - 1, idx[-1]]:
        return dict(status="undecided", exponent=p, lambdas=lams, D=D)
    h = idx[-3]
    p_prev = math.log(D[h] / D[i]) / math.log(lams[h] / lams[i])
    if p_prev < n - SLACK and 2.0 * p - p_prev < n - 2.0 * SLACK:
        return dict(status="low", exponent=p, lambdas=lams, D=D)
    return dict(status="undecided", exponent=p, lambdas=lams, D=D)


def fmt(v):
    return (
        f"exponent {v['exponent']:.3f}; D(lambda) = "
        + ", ".join(f"{lam:g}:{d:.3e}" for lam, d in zip(v["lambdas"], v["D"]))
    )

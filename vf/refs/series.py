"""Truncated power-series algebra over an arbitrary (possibly non-commutative) coefficient ring.

Nothing in this file imports eko.  It is the independent oracle of C21 / C22 (and usable by C16, C18, C29):
expansions are *derived* here (Picard iteration of the defining differential equation, composition, multiplicative
and compositional inversion), never typed from eko's hand-expanded formulas.

Building blocks
---------------
``Mat``      thin wrapper around a square complex ``numpy`` matrix whose ``*`` is the matrix product (order of the
             factors is kept) and for which a plain number ``s`` means ``s * identity`` (``1 + M`` works).
``Poly``     polynomial in one commuting variable ``t`` with coefficients in any ring (numbers, ``Fraction``,
             ``Mat``, sympy expressions - commutative or not); ``integrate()`` is ``int_0^t``.
``Series``   power series in one commuting variable ``a`` truncated at a fixed order ``N`` with coefficients in any
             ring (numbers, ``Mat``, ``Poly`` of those, sympy expressions ...).

Generic derivations
-------------------
``picard``            fixed point of ``y = y0 + int_0^t rhs(y)`` order by order
``running_coupling``  a(t) as a series in a' = a(0) for  da/dt = sum_k b_k a^(k+2)
``ordered_exp``       path-ordered exponential  dF/dt = Gamma(t) F  (or F Gamma), F(0) = 1
``Series.compose``    f(g(a)) for a central (commuting) inner series with g(0) = 0
``Series.inverse``    multiplicative inverse (non-commutative coefficients allowed)
``Series.reversion``  compositional inverse (commutative coefficients)
"""

from __future__ import annotations

import numbers
from fractions import Fraction

import numpy as np

# ------------------------------------------------------------------------------------------------ scalars


def is_number(x):
    return isinstance(x, (numbers.Number, np.number)) and not isinstance(x, bool)


def _div_int(x, n):
    """x / n for a positive integer n, staying exact where x is exact."""
    if isinstance(x, (int, Fraction)) and not isinstance(x, bool):
        return Fraction(x) / n
    if isinstance(x, (Mat, Poly)):
        return x.div_int(n)
    if is_number(x):
        return x / n
    # sympy & friends
    try:
        import sympy

        return x * sympy.Rational(1, n)
    except ImportError:  # pragma: no cover
        return x * (1.0 / n)


def is_zero(x):
    if isinstance(x, (Mat, Poly)):
        return x.is_zero()
    if is_number(x):
        return x == 0
    return False


# ------------------------------------------------------------------------------------------------ matrices


class Mat:
    """Square complex matrix as a ring element: ``*`` is the (ordered) matrix product, numbers act as multiples
    of the identity."""

    __slots__ = ("m",)
    __array_priority__ = 1000  # never let numpy scalars absorb us

    def __init__(self, m):
        self.m = np.array(m, dtype=np.complex128)
        if self.m.ndim != 2 or self.m.shape[0] != self.m.shape[1]:
            raise ValueError(f"Mat needs a square matrix, got shape {self.m.shape}")

    @staticmethod
    def eye(n):
        return Mat(np.eye(n))

    @property
    def dim(self):
        return self.m.shape[0]

    def _lift(self, o):
        if isinstance(o, Mat):
            return o.m
        if is_number(o):
            return complex(o) * np.eye(self.dim)
        return None

    def __add__(self, o):
        v = self._lift(o)
        return NotImplemented if v is None else Mat(self.m + v)

    __radd__ = __add__

    def __neg__(self):
        return Mat(-self.m)

    def __sub__(self, o):
        v = self._lift(o)
        return NotImplemented if v is None else Mat(self.m - v)

    def __rsub__(self, o):
        v = self._lift(o)
        return NotImplemented if v is None else Mat(v - self.m)

    def __mul__(self, o):
        if isinstance(o, Mat):
            return Mat(self.m @ o.m)
        if is_number(o):
            return Mat(self.m * complex(o))
        return NotImplemented

    def __rmul__(self, o):
        if is_number(o):
            return Mat(complex(o) * self.m)
        return NotImplemented

    def __truediv__(self, o):
        if is_number(o):
            return Mat(self.m / complex(o))
        return NotImplemented

    def div_int(self, n):
        return Mat(self.m / n)

    def inv(self):
        return Mat(np.linalg.inv(self.m))

    def is_zero(self):
        return not self.m.any()

    def norm(self):
        return float(np.linalg.norm(self.m, 2))

    def __repr__(self):
        return f"Mat({self.m.tolist()})"


def ring_inv(x):
    """Inverse of an invertible coefficient."""
    if isinstance(x, Mat):
        return x.inv()
    if isinstance(x, Poly):
        if x.degree() > 0:
            raise ValueError("cannot invert a non-constant polynomial coefficient")
        return Poly([ring_inv(x.c[0])])
    if isinstance(x, (int, Fraction)) and not isinstance(x, bool):
        return 1 / Fraction(x)
    return 1 / x


# ------------------------------------------------------------------------------------------------ polynomials


class Poly:
    """Polynomial in a commuting variable t; coefficient ring arbitrary (order of coefficient products kept)."""

    __slots__ = ("c",)

    def __init__(self, coeffs):
        c = list(coeffs)
        if not c:
            c = [0]
        self.c = c

    @staticmethod
    def t():
        return Poly([0, 1])

    @staticmethod
    def lift(x):
        return x if isinstance(x, Poly) else Poly([x])

    def degree(self):
        d = len(self.c) - 1
        while d > 0 and is_zero(self.c[d]):
            d -= 1
        return d

    def is_zero(self):
        return all(is_zero(x) for x in self.c)

    def __add__(self, o):
        if isinstance(o, (Series,)):
            return NotImplemented
        o = Poly.lift(o)
        n = max(len(self.c), len(o.c))
        out = []
        for i in range(n):
            if i < len(self.c) and i < len(o.c):
                out.append(self.c[i] + o.c[i])
            elif i < len(self.c):
                out.append(self.c[i])
            else:
                out.append(o.c[i])
        return Poly(out)

    __radd__ = __add__

    def __neg__(self):
        return Poly([-x for x in self.c])

    def __sub__(self, o):
        if isinstance(o, Series):
            return NotImplemented
        return self + (-Poly.lift(o))

    def __rsub__(self, o):
        return Poly.lift(o) + (-self)

    def __mul__(self, o):
        if isinstance(o, Series):
            return NotImplemented
        if not isinstance(o, Poly):
            return Poly([x * o for x in self.c])
        out = [0] * (len(self.c) + len(o.c) - 1)
        for i, x in enumerate(self.c):
            if is_zero(x):
                continue
            for j, y in enumerate(o.c):
                if is_zero(y):
                    continue
                out[i + j] = out[i + j] + x * y
        return Poly(out)

    def __rmul__(self, o):
        if isinstance(o, (Poly, Series)):
            return NotImplemented
        return Poly([o * x for x in self.c])

    def div_int(self, n):
        return Poly([_div_int(x, n) for x in self.c])

    def integrate(self):
        """int_0^t."""
        return Poly([0] + [_div_int(x, k + 1) for k, x in enumerate(self.c)])

    def derivative(self):
        return Poly([k * x for k, x in enumerate(self.c)][1:] or [0])

    def __call__(self, t):
        res = self.c[-1]
        for x in reversed(self.c[:-1]):
            res = res * t + x
        return res

    def map(self, fn):
        return Poly([fn(x) for x in self.c])

    def __repr__(self):
        return f"Poly({self.c!r})"


# ------------------------------------------------------------------------------------------------ series


class Series:
    """sum_{k=0}^{N} c_k a^k  (+ O(a^{N+1})), a commuting with every coefficient."""

    __slots__ = ("c", "N")

    def __init__(self, coeffs, N=None):
        c = list(coeffs)
        if N is None:
            N = len(c) - 1
        if N < 0:
            raise ValueError("order must be >= 0")
        c = c[: N + 1] + [0] * (N + 1 - len(c))
        self.c, self.N = c, N

    @staticmethod
    def var(N):
        """The expansion variable a itself."""
        return Series([0, 1], N)

    @staticmethod
    def const(x, N):
        return Series([x], N)

    def _coerce(self, o):
        if isinstance(o, Series):
            if o.N != self.N:
                N = min(o.N, self.N)
                return Series(self.c, N), Series(o.c, N)
            return self, o
        return self, Series([o], self.N)

    def __add__(self, o):
        s, o = self._coerce(o)
        return Series([x + y for x, y in zip(s.c, o.c)], s.N)

    __radd__ = __add__

    def __neg__(self):
        return Series([-x for x in self.c], self.N)

    def __sub__(self, o):
        s, o = self._coerce(o)
        return Series([x - y for x, y in zip(s.c, o.c)], s.N)

    def __rsub__(self, o):
        s, o = self._coerce(o)
        return Series([y - x for x, y in zip(s.c, o.c)], s.N)

    def __mul__(self, o):
        if not isinstance(o, Series):
            return Series([x * o for x in self.c], self.N)
        s, o = self._coerce(o)
        out = [0] * (s.N + 1)
        for i, x in enumerate(s.c):
            if is_zero(x):
                continue
            for j in range(s.N + 1 - i):
                y = o.c[j]
                if is_zero(y):
                    continue
                out[i + j] = out[i + j] + x * y
        return Series(out, s.N)

    def __rmul__(self, o):
        if isinstance(o, Series):
            return NotImplemented
        return Series([o * x for x in self.c], self.N)

    def __pow__(self, k):
        if not isinstance(k, int) or k < 0:
            raise ValueError("non-negative integer powers only")
        res = Series([1], self.N)
        for _ in range(k):
            res = res * self
        return res

    def map(self, fn):
        return Series([fn(x) for x in self.c], self.N)

    def truncate(self, N):
        return Series(self.c, N)

    def compose(self, inner):
        """self(inner(a)); ``inner`` must have no constant term and *central* (commuting) coefficients."""
        if not is_zero(inner.c[0]):
            raise ValueError("inner series must vanish at a = 0")
        N = min(self.N, inner.N)
        res = Series([self.c[N]], N)
        for k in range(N - 1, -1, -1):
            res = res * inner + Series([self.c[k]], N)
        return res

    def inverse(self):
        """Multiplicative inverse b with self*b = b*self = 1 + O(a^{N+1}); needs an invertible constant term."""
        b0 = ring_inv(self.c[0])
        b = [b0]
        for k in range(1, self.N + 1):
            acc = 0
            for j in range(1, k + 1):
                if is_zero(self.c[j]):
                    continue
                acc = acc + self.c[j] * b[k - j]
            b.append(-(b0 * acc) if not is_zero(acc) else 0)
        return Series(b, self.N)

    def reversion(self):
        """Compositional inverse g of f = a + c_2 a^2 + ... (commutative coefficients): f(g(a)) = a + O(a^{N+1})."""
        if not is_zero(self.c[0]):
            raise ValueError("series must vanish at a = 0")
        c1 = self.c[1]
        rest = Series([0, 0] + self.c[2:], self.N)  # f(a) - c1 a
        inv1 = ring_inv(c1)
        g = Series([0, inv1], self.N)
        a = Series.var(self.N)
        for _ in range(self.N):
            g = (a - rest.compose(g)) * inv1
        return g

    def __call__(self, a):
        res = self.c[-1]
        for x in reversed(self.c[:-1]):
            res = res * a + x
        return res

    def __repr__(self):
        return f"Series({self.c!r}, N={self.N})"


# ------------------------------------------------------------------------------------------------ derivations


def _integrate_coeff(x):
    return Poly.lift(x).integrate()


def picard(rhs, y0, N, iterations=None):
    """Fixed point of y(t) = y0 + int_0^t rhs(y)(s) ds as a Series (order N) with Poly(t) coefficients.

    ``rhs`` maps a Series to a Series and must raise the order in ``a`` by at least one per application
    (true for RG equations, whose right-hand sides start at a^2, and for dF/dt = Gamma F with Gamma = O(a)),
    so N+1 sweeps reach the fixed point exactly."""
    y = y0
    for _ in range(iterations if iterations is not None else N + 1):
        y = y0 + rhs(y).map(_integrate_coeff)
    return y


def running_coupling(b, N):
    """a(t) in powers of a' = a(0) for  da/dt = sum_k b[k] a^(k+2): Series(order N) with Poly(t) coefficients.

    With t = ln(mu0^2/mu^2) and b[k] = beta_k this is the QCD coupling at the *lower* scale mu^2 = mu0^2 e^{-t}
    expressed through the one at mu0^2 (doc pQCD.rst: da/dln mu^2 = -sum beta_k a^{k+2})."""
    a0 = Series([0, Poly([1])], N)

    def rhs(y):
        out = Series([0], N)
        yk = y * y
        for bk in b:
            out = out + yk * bk
            yk = yk * y
        return out

    return picard(rhs, a0, N)


def tower(coeffs, a, first_power=1):
    """sum_j coeffs[j] * a^(j+first_power) for a central Series ``a`` (coefficients may be matrices)."""
    N = a.N
    out = Series([0], N)
    p = a**first_power
    for g in coeffs:
        out = out + p * g
        p = p * a
    return out


def ordered_exp(Gamma, N, side="left"):
    """Path-ordered exponential as a Series(order N) with Poly(t) coefficients.

    side="left":  dF/dt = Gamma(t) F  (later times to the left);  side="right": dF/dt = F Gamma(t).
    ``Gamma`` is a Series in a' (Poly(t) coefficients) with no O(a'^0) term."""
    if not is_zero(Gamma.c[0]):
        raise ValueError("Gamma must be O(a)")
    one = Series([Poly([1])], N)
    if side == "left":
        return picard(lambda F: Gamma * F, one, N)
    return picard(lambda F: F * Gamma, one, N)


def at_time(series, t):
    """Evaluate the Poly(t) coefficients of a Series at a value of t."""
    return series.map(lambda p: Poly.lift(p)(t))

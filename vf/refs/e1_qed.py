"""Independent charge algebra for the QED-extended anomalous-dimension grids (engine E, property C30).

Nothing here imports eko/ekore.  Conventions (doc/source/theory/FlavorSpace.rst, "unified evolution basis"):
flavours are ordered d,u,s,c,b,t, so among the first nf flavours there are nu = nf // 2 up-type and
nd = nf - nu down-type ones;

    Sigma      = Sigma_u + Sigma_d
    Sigma_Delta = (nd/nu) Sigma_u - Sigma_d                (same for V, V_Delta with the valence combinations)

with Sigma_u (Sigma_d) the sum of q + qbar over the up-type (down-type) flavours.  Inverting,

    Sigma_u = (nu/nf) (Sigma + Sigma_Delta),    Sigma_d = (nd/nf) Sigma - (nu/nf) Sigma_Delta.

A kernel that is diagonal in flavour with a charge-dependent strength, d q_i/dt = -k_i q_i with k_i = k_u (k_d) for
up-type (down-type) quarks, therefore becomes in the (Sigma, Sigma_Delta) basis

    R diag(k_u, k_d) R^-1      with  R = [[1, 1], [nd/nu, -1]].

A "pure singlet" piece  d q_i/dt = -(g / nf) e_i^2 sum_j e_j^2 q_j  (q -> photon -> q') becomes
R [[nu eu2 eu2, nu eu2 ed2], [nd ed2 eu2, nd ed2 ed2]] R^-1 * g / nf.
"""

from fractions import Fraction as F

EU2 = F(4, 9)
ED2 = F(1, 9)
NC = 3
CF = F(4, 3)
CA = 3
TR = F(1, 2)


def nud(nf):
    nu = nf // 2
    return nu, nf - nu


def e_sigma2(nf):
    """NC * sum over active quarks of e_q^2."""
    nu, nd = nud(nf)
    return NC * (nu * EU2 + nd * ED2)


def rot(nf):
    """R and R^-1 between (Sigma_u, Sigma_d) and (Sigma, Sigma_Delta), exact."""
    nu, nd = nud(nf)
    R = [[F(1), F(1)], [F(nd, nu), F(-1)]]
    Ri = [[F(nu, nf), F(nu, nf)], [F(nd, nf), F(-nu, nf)]]
    # sanity: R Ri = 1
    for i in range(2):
        for j in range(2):
            s = sum(R[i][k] * Ri[k][j] for k in range(2))
            assert s == (1 if i == j else 0)
    return R, Ri


def diag_in_unified(nf, ku, kd):
    """R diag(ku, kd) R^-1 as a 2x2 nested list of complex numbers (ku, kd complex)."""
    R, Ri = rot(nf)
    k = [ku, kd]
    return [[sum(float(R[i][a]) * k[a] * float(Ri[a][j]) for a in range(2)) for j in range(2)] for i in range(2)]


def charge_matrix_ns(nf):
    """Coefficient matrix of a kernel e_q^2 * f in the (Sigma, Sigma_Delta) basis, exact Fractions.

    Equals [[<e^2>, nu/nf (eu2-ed2)], [nd/nf (eu2-ed2), (nd eu2 + nu ed2)/nf]].
    """
    R, Ri = rot(nf)
    k = [EU2, ED2]
    return [[sum(R[i][a] * k[a] * Ri[a][j] for a in range(2)) for j in range(2)] for i in range(2)]


def charge_matrix_ps(nf):
    """Coefficient matrix of the pure-singlet piece in the unified basis, exact, per unit gamma_ps.

    As in QCD (gamma_qq = gamma_ns + gamma_ps with gamma_ps proportional to nf) the flavour-space kernel is
    d q_i/dt = -(gamma_ps / nf) e_i^2 sum_j e_j^2 q_j, so in the type basis M[a][b] = n_a e_a^2 e_b^2 / nf.
    The result equals [[<e2>^2, vu e2m <e2>], [vd e2m <e2>, vu vd e2m^2]] (e2m = eu2 - ed2, vu = nu/nf, vd = nd/nf).
    """
    nu, nd = nud(nf)
    R, Ri = rot(nf)
    n = [nu, nd]
    e = [EU2, ED2]
    M = [[F(n[a]) * e[a] * e[b] / nf for b in range(2)] for a in range(2)]
    return [[sum(R[i][a] * M[a][b] * Ri[b][j] for a in range(2) for b in range(2)) for j in range(2)] for i in range(2)]

"""Reference model of flavour-number paths through the matching scales.

Written from the text of property C19 only (never from ``eko.matchings``):

    the evolution path starts at the initial scale with the initial nf, ends at the target scale with
    the target nf (default nf when unspecified), is contiguous, changes nf by exactly one unit at each
    step in a single direction, places each step exactly on the matching scale of the quark being
    (de)activated, and the matched path inserts one matching per step naming the heavier quark and
    flagged as inverse exactly for downward paths.

Conventions (documentation of eko): scales are squared scales; ``walls = [mu_c^2, mu_b^2, mu_t^2]`` are the
matching scales of the quarks with PID 4, 5, 6; nf is the number of active flavours of a segment (3..6); a
step nf -> nf+1 activates quark nf+1, a step nf -> nf-1 deactivates quark nf.  The default nf of a scale is 3
plus the number of matching scales that are <= the scale ("default flow": start with 3 flavours below the
charm matching and add one for every matching scale passed while increasing the scale; a scale sitting on a
matching scale has passed it).  The default flow is only defined for naturally sorted matching scales.

Scales are treated as opaque objects: only ``<=`` (for the default nf) is ever applied to them, so the model
works for floats, 0, inf and for symbolic tokens alike.
"""

from __future__ import annotations

CHARM, TOP = 4, 6


def wall_of(hq, walls):
    """Matching scale of heavy quark ``hq`` (PID 4, 5, 6)."""
    if not CHARM <= hq <= TOP:
        raise ValueError(f"no matching scale for quark {hq}")
    return walls[hq - CHARM]


def default_nf(mu2, walls):
    """Number of flavours of ``mu2`` in the default flow (walls must be naturally sorted)."""
    return 3 + sum(1 for w in walls if w <= mu2)


def normalize(point, walls):
    mu2, nf = point
    if nf is None:
        nf = default_nf(mu2, walls)
    return mu2, nf


def steps(nf0, nff):
    """List of (nf_before, nf_after, hq, inverse) for going from nf0 to nff one unit at a time."""
    out = []
    nf = nf0
    while nf != nff:
        if nff > nf:
            out.append((nf, nf + 1, nf + 1, False))
            nf += 1
        else:
            out.append((nf, nf - 1, nf, True))
            nf -= 1
    return out


def ref_path(walls, origin, target):
    """Expected path: list of (origin, target, nf) triples."""
    mu0, nf0 = normalize(origin, walls)
    muf, nff = normalize(target, walls)
    segs = []
    cur = mu0
    for before, _after, hq, _inv in steps(nf0, nff):
        w = wall_of(hq, walls)
        segs.append((cur, w, before))
        cur = w
    segs.append((cur, muf, nff))
    return segs


def ref_matched_path(walls, origin, target):
    """Expected matched path: ("seg", origin, target, nf) and ("match", scale, hq, inverse) items."""
    mu0, nf0 = normalize(origin, walls)
    _muf, nff = normalize(target, walls)
    segs = ref_path(walls, origin, target)
    out = [("seg",) + segs[0]]
    for (before, _after, hq, inv), seg in zip(steps(nf0, nff), segs[1:]):
        out.append(("match", wall_of(hq, walls), hq, inv))
        out.append(("seg",) + seg)
    return out


def same(x, y):
    """Scale identity: the very same symbolic token, or equal numbers (inf == inf)."""
    return x is y or x == y


def path_defects(walls, origin, target, segs):
    """Validity predicate of the statement, clause by clause.

    ``segs`` is a list of (origin, target, nf) triples; returns a list of (clause, message)."""
    mu0, nf0 = normalize(origin, walls)
    muf, nff = normalize(target, walls)
    bad = []
    if not segs:
        return [("empty", "path has no segment")]
    if not same(segs[0][0], mu0):
        bad.append(("start-scale", f"path starts at {segs[0][0]!r}, initial scale is {mu0!r}"))
    if segs[0][2] != nf0:
        bad.append(("start-nf", f"path starts with nf={segs[0][2]}, initial nf is {nf0}"))
    if not same(segs[-1][1], muf):
        bad.append(("end-scale", f"path ends at {segs[-1][1]!r}, target scale is {muf!r}"))
    if segs[-1][2] != nff:
        bad.append(("end-nf", f"path ends with nf={segs[-1][2]}, target nf is {nff}"))
    dirs = set()
    for i in range(len(segs) - 1):
        a, b = segs[i], segs[i + 1]
        if not same(a[1], b[0]):
            bad.append(("contiguous", f"segment {i} ends at {a[1]!r} but segment {i + 1} starts at {b[0]!r}"))
        d = b[2] - a[2]
        if abs(d) != 1:
            bad.append(("unit-step", f"nf changes by {d} between segments {i} and {i + 1}"))
            continue
        dirs.add(d)
        hq = max(a[2], b[2])
        if not CHARM <= hq <= TOP:
            bad.append(("quark-range", f"step {i} (de)activates quark {hq}"))
            continue
        if not same(a[1], wall_of(hq, walls)):
            bad.append(
                ("on-wall", f"step {a[2]}->{b[2]} placed at {a[1]!r}, matching scale of quark {hq} is "
                            f"{wall_of(hq, walls)!r}")
            )
    if len(dirs) > 1:
        bad.append(("single-direction", f"nf sequence {[s[2] for s in segs]} is not monotonic"))
    if len(segs) - 1 != abs(nff - nf0):
        bad.append(("step-count", f"{len(segs) - 1} steps for nf {nf0}->{nff}"))
    return bad

"""Shared runner for the eko property checks.

A property module (``vf.props.cXX_*``) exposes

    ID            "C20"
    LEVEL         "exploration" | "fault_enumeration"
    RULE          how cases are generated and what makes one non-trivial / distinct
    ASSUMPTIONS   list[str]
    TECHNIQUE     short text (informational)

and any of the three case sources

    strategy(tier)            -> hypothesis strategy of JSON-serialisable cases
    enumerate_cases(tier)     -> finite list of JSON-serialisable cases (exhaustive part)
    run_custom(tier, seed, shard, nshards, record)
                              -> drives its own generation (stateful machines, sub-processes) and
                                 calls record(case, CaseResult) for each executed case

plus

    check_case(case)          -> CaseResult        (never raises for a property violation)
    budget(tier)              -> dict(max_examples=, shards=, wall_s=, custom_shards=, shrink_s=)

Exit codes: 0 property held (known findings are printed, not failed), 1 violation
(``VIOLATION property=<id> replay=<path>``), 2 harness error.
"""

from __future__ import annotations

import argparse
import dataclasses
import fnmatch
import hashlib
import importlib
import json
import os
import pathlib
import shutil
import subprocess
import sys
import time
import traceback
from collections import Counter

VERIF = pathlib.Path(__file__).resolve().parent.parent
REPO = pathlib.Path(os.environ.get("VERIF_REPO", "/repo")).resolve()
WORK = VERIF / ".work"
DEPS = VERIF / ".deps"
PY = "/venv/bin/python"
WHEELS = "/opt/veriftools/wheels"

# --------------------------------------------------------------------------- environment


def setup_paths():
    """Make sure the tree under test is the one that gets imported."""
    src = str(REPO / "src")
    if src in sys.path:
        sys.path.remove(src)
    sys.path.insert(0, src)
    if str(DEPS) not in sys.path:
        sys.path.append(str(DEPS))
    if str(VERIF) not in sys.path:
        sys.path.insert(1, str(VERIF))


def assert_tree():
    import eko
    import ekobox
    import ekore

    for m in (eko, ekore, ekobox):
        f = pathlib.Path(m.__file__).resolve()
        if REPO / "src" not in f.parents:
            raise HarnessError(f"{m.__name__} imported from {f}, not from {REPO}/src")


def ensure_deps():
    """mpmath / sympy live only in the offline wheelhouse; install them beside the harness."""
    need = []
    for mod in ("mpmath", "sympy"):
        if not (DEPS / mod).exists():
            need.append(mod)
    try:
        import hypothesis  # noqa: F401
    except ImportError:
        subprocess.run(
            [PY, "-m", "pip", "install", "-q", "--no-index", "--find-links", WHEELS, "hypothesis"],
            check=True,
        )
    if need:
        DEPS.mkdir(exist_ok=True)
        subprocess.run(
            [PY, "-m", "pip", "install", "-q", "--no-index", "--find-links", WHEELS,
             "--target", str(DEPS), *need],
            check=True,
        )


class HarnessError(Exception):
    pass


# --------------------------------------------------------------------------- results


@dataclasses.dataclass
class Violation:
    bucket: str
    message: str

    def to_json(self):
        return {"bucket": self.bucket, "message": self.message}


@dataclasses.dataclass
class CaseResult:
    nontrivial: bool = True
    key: object = None  # identifies distinctness; default: the case itself
    classes: list = dataclasses.field(default_factory=list)
    violations: list = dataclasses.field(default_factory=list)
    discarded: str | None = None  # reason if the case was outside the domain (counted, not evaluated)

    def fail(self, bucket, message):
        self.violations.append(Violation(bucket, str(message)[:2000]))
        return self


def repo_frame(exc):
    """Innermost traceback frame inside the tree under test: (file:function)."""
    tb = traceback.extract_tb(exc.__traceback__)
    where = "?"
    for fr in tb:
        if "/src/eko" in fr.filename or "/src/ekobox" in fr.filename or "/src/ekore" in fr.filename:
            where = f"{pathlib.Path(fr.filename).name}:{fr.name}"
    return where


def exc_bucket(prefix, exc):
    return f"{prefix}/{type(exc).__name__}@{repo_frame(exc)}"


def jhash(obj):
    return hashlib.sha1(json.dumps(obj, sort_keys=True, default=str).encode()).hexdigest()


def jsize(obj):
    return len(json.dumps(obj, sort_keys=True, default=str))


def jsonable(o):
    """Convert numpy / complex leaves to plain JSON values."""
    import numpy as np

    if isinstance(o, dict):
        return {str(k): jsonable(v) for k, v in o.items()}
    if isinstance(o, (list, tuple)):
        return [jsonable(v) for v in o]
    if isinstance(o, np.ndarray):
        return jsonable(o.tolist())
    if isinstance(o, (complex, np.complexfloating)):
        return [float(o.real), float(o.imag)]
    if isinstance(o, (np.floating,)):
        return float(o)
    if isinstance(o, (np.integer,)):
        return int(o)
    if isinstance(o, (np.bool_,)):
        return bool(o)
    return o


class Accumulator:
    MAX_SAMPLES = 6
    KEEP_PER_BUCKET = 3

    def __init__(self):
        self.evaluations = 0
        self.nontrivial = set()
        self.classes = Counter()
        self.discarded = Counter()
        self.samples = []
        self.late_samples = []  # (hash, case) smallest hashes -> deterministic pseudo-random picks
        self.violations = {}  # bucket -> list[(size, case, message)]
        self.violation_count = Counter()
        self.budget_skipped = 0

    def record(self, case, res: CaseResult):
        if res.discarded is not None:
            self.discarded[res.discarded] += 1
            return
        self.evaluations += 1
        for c in res.classes:
            self.classes[c] += 1
        if res.nontrivial:
            h = jhash(res.key if res.key is not None else case)
            if h not in self.nontrivial:
                self.nontrivial.add(h)
                if len(self.samples) < 3:
                    self.samples.append(case)
                else:
                    self.late_samples.append((h, case))
                    self.late_samples.sort(key=lambda t: t[0])
                    del self.late_samples[3:]
        for v in res.violations:
            self.violation_count[v.bucket] += 1
            lst = self.violations.setdefault(v.bucket, [])
            lst.append((jsize(case), case, v.message))
            lst.sort(key=lambda t: t[0])
            del lst[self.KEEP_PER_BUCKET:]

    def dump(self):
        return {
            "evaluations": self.evaluations,
            "nontrivial": sorted(self.nontrivial),
            "classes": dict(self.classes),
            "discarded": dict(self.discarded),
            "samples": self.samples,
            "late_samples": self.late_samples,
            "violations": {b: [list(t) for t in l] for b, l in self.violations.items()},
            "violation_count": dict(self.violation_count),
            "budget_skipped": self.budget_skipped,
        }

    def merge(self, d):
        self.evaluations += d["evaluations"]
        for h in d["nontrivial"]:
            self.nontrivial.add(h)
        self.classes.update(d["classes"])
        self.discarded.update(d["discarded"])
        for s in d["samples"]:
            if len(self.samples) < 3:
                self.samples.append(s)
        for h, c in d["late_samples"]:
            self.late_samples.append((h, c))
        self.late_samples.sort(key=lambda t: t[0])
        del self.late_samples[3:]
        for b, l in d["violations"].items():
            lst = self.violations.setdefault(b, [])
            lst.extend(tuple(t) for t in l)
            lst.sort(key=lambda t: t[0])
            del lst[self.KEEP_PER_BUCKET:]
        self.violation_count.update(d["violation_count"])
        self.budget_skipped += d["budget_skipped"]


# --------------------------------------------------------------------------- module access

DEFAULT_BUDGET = {
    "quick": dict(max_examples=200, shards=8, wall_s=60, custom_shards=0, shrink_s=40),
    "thorough": dict(max_examples=4000, shards=16, wall_s=900, custom_shards=0, shrink_s=200),
}


def find_module(pid):
    pid = pid.upper()
    props = VERIF / "vf" / "props"
    hits = sorted(props.glob(f"{pid.lower()}_*.py")) + sorted(props.glob(f"{pid.lower()}.py"))
    if not hits:
        raise HarnessError(f"no property module for {pid}")
    return importlib.import_module(f"vf.props.{hits[0].stem}")


def module_budget(mod, tier):
    b = dict(DEFAULT_BUDGET[tier])
    if hasattr(mod, "budget"):
        b.update(mod.budget(tier))
    return b


def safe_check(mod, case):
    """check_case wrapper: unexpected exceptions in the harness are harness errors, not violations."""
    res = mod.check_case(case)
    if not isinstance(res, CaseResult):
        raise HarnessError(f"{mod.__name__}.check_case returned {type(res)}")
    return res


# --------------------------------------------------------------------------- shard worker


def run_shard(pid, tier, seed, shard, nshards, mode, out, bucket=None):
    """Executed in a fresh process. mode: given | enum | custom | shrink."""
    setup_paths()
    assert_tree()
    mod = find_module(pid)
    b = module_budget(mod, tier)
    acc = Accumulator()
    t0 = time.time()
    wall = b["wall_s"]

    if mode == "enum":
        cases = list(mod.enumerate_cases(tier))
        for i, case in enumerate(cases):
            if i % nshards != shard:
                continue
            acc.record(case, safe_check(mod, case))
    elif mode == "custom":
        mod.run_custom(tier, seed, shard, nshards, acc.record)
    elif mode in ("given", "shrink"):
        import hypothesis
        from hypothesis import HealthCheck, Phase, given, settings

        n = max(1, b["max_examples"] // nshards)
        # Hypothesis always starts the generate phase with the all-simplest example, whatever the seed: evaluate it on
        # shard 0 only, so that shards with few examples do not all spend their budget on the same case.
        skip_first = mode == "given" and shard > 0
        if skip_first:
            n += 1
        ncalls = [0]
        strat = mod.strategy(tier)
        phases = [Phase.generate] if mode == "given" else [Phase.generate, Phase.shrink]
        stg = settings(
            max_examples=n,
            database=None,
            deadline=None,
            derandomize=False,
            report_multiple_bugs=False,
            suppress_health_check=list(HealthCheck),
            phases=phases,
            print_blob=False,
        )

        if mode == "given":

            @hypothesis.seed(seed * 1000 + shard)
            @stg
            @given(strat)
            def test(case):
                ncalls[0] += 1
                if skip_first and ncalls[0] == 1:
                    return
                if time.time() - t0 > wall:
                    acc.budget_skipped += 1
                    return
                acc.record(case, safe_check(mod, case))

            test()
        else:
            last = pathlib.Path(out)

            @hypothesis.seed(seed * 1000 + shard)
            @stg
            @given(strat)
            def test(case):
                res = safe_check(mod, case)
                for v in res.violations:
                    if v.bucket == bucket:
                        tmp = last.with_suffix(".tmp")
                        tmp.write_text(json.dumps({"case": case, "message": v.message}))
                        os.replace(tmp, last)
                        raise AssertionError(v.message)

            try:
                test()
            except AssertionError:
                pass
            return
    else:
        raise HarnessError(mode)
    d = acc.dump()
    d["wall_s"] = time.time() - t0
    pathlib.Path(out).write_text(json.dumps(d))


# --------------------------------------------------------------------------- orchestration


def child_env(workdir):
    env = dict(os.environ)
    env.setdefault("PYTHONHASHSEED", "0")
    env.setdefault("NUMBA_DISABLE_JIT", "1")
    env["TMPDIR"] = str(workdir)
    env["PYTHONPATH"] = os.pathsep.join([str(VERIF), str(DEPS), env.get("PYTHONPATH", "")]).rstrip(os.pathsep)
    env["PYTHONDONTWRITEBYTECODE"] = "1"
    env.setdefault("OMP_NUM_THREADS", "1")
    env.setdefault("OPENBLAS_NUM_THREADS", "1")
    env.setdefault("MKL_NUM_THREADS", "1")
    return env


def spawn(args, workdir, log):
    return subprocess.Popen(
        [PY, "-m", "vf", *args],
        cwd=str(VERIF),
        env=child_env(workdir),
        stdout=open(log, "w"),
        stderr=subprocess.STDOUT,
    )


def load_known():
    f = VERIF / "known_findings.json"
    if not f.exists():
        return []
    return json.loads(f.read_text())


def match_known(pid, bucket, case, known):
    for k in known:
        if k.get("property") != pid or k.get("status") != "open":
            continue
        if not fnmatch.fnmatchcase(bucket, k["bucket"]):
            continue
        m = k.get("match") or {}
        if all(_dig(case, kk) == vv for kk, vv in m.items()):
            return k
    return None


def _dig(case, dotted):
    cur = case
    for p in dotted.split("."):
        if isinstance(cur, dict) and p in cur:
            cur = cur[p]
        else:
            return None
    return cur


def validate_evidence(ev):
    try:
        import jsonschema
    except ImportError:
        return
    schema = json.loads((VERIF / "schemas" / "EVIDENCE.schema.json").read_text())
    jsonschema.validate(ev, schema)


def main(argv=None):
    ap = argparse.ArgumentParser(prog="check")
    ap.add_argument("pid")
    ap.add_argument("--tier", default=os.environ.get("VERIF_TIER", "quick"), choices=["quick", "thorough"])
    ap.add_argument("--replay")
    ap.add_argument("--seed", type=int, default=int(os.environ.get("VERIF_SEED", "1") or 1))
    # internal
    ap.add_argument("--shard", type=int)
    ap.add_argument("--nshards", type=int)
    ap.add_argument("--mode")
    ap.add_argument("--out")
    ap.add_argument("--bucket")
    a = ap.parse_args(argv)
    pid = a.pid.upper()

    if a.shard is not None:
        try:
            run_shard(pid, a.tier, a.seed, a.shard, a.nshards, a.mode, a.out, a.bucket)
        except Exception:
            traceback.print_exc()
            sys.exit(2)
        sys.exit(0)

    try:
        sys.exit(orchestrate(pid, a.tier, a.seed, a.replay))
    except HarnessError as e:
        print(f"HARNESS-ERROR property={pid} {e}")
        sys.exit(2)
    except Exception:
        traceback.print_exc()
        print(f"HARNESS-ERROR property={pid} unexpected exception")
        sys.exit(2)


def orchestrate(pid, tier, seed, replay):
    t0 = time.time()
    ensure_deps()
    setup_paths()
    assert_tree()
    mod = find_module(pid)
    known = load_known()
    b = module_budget(mod, tier)

    if replay:
        case = json.loads(pathlib.Path(replay).read_text())
        case = case.get("case", case) if isinstance(case, dict) and "bucket" in case else case
        res = safe_check(mod, case)
        bad = 0
        for v in res.violations:
            k = match_known(pid, v.bucket, case, known)
            if k:
                print(f"KNOWN-FINDING: property={pid} {k['what']}")
            else:
                bad += 1
                print(f"  bucket={v.bucket}: {v.message}")
        if bad:
            print(f"VIOLATION property={pid} replay={replay}")
            return 1
        print(f"OK property={pid} replay held")
        return 0

    run_id = f"{pid}-{tier}-{seed}-{os.getpid()}"
    workdir = WORK / run_id
    if workdir.exists():
        shutil.rmtree(workdir)
    workdir.mkdir(parents=True)
    acc = Accumulator()
    exhaustive = False
    try:
        # 1. regression replays (plain calls, no generation)
        os.environ["TMPDIR"] = str(workdir)
        import tempfile

        tempfile.tempdir = str(workdir)
        reg_dir = VERIF / "regressions" / pid
        n_reg = 0
        if reg_dir.exists():
            for f in sorted(reg_dir.glob("*.json")):
                case = json.loads(f.read_text())
                case = case.get("case", case) if isinstance(case, dict) and "bucket" in case else case
                acc.record(case, safe_check(mod, case))
                n_reg += 1

        # 2. sharded generation in fresh processes
        jobs = []
        if hasattr(mod, "enumerate_cases"):
            ncases = len(list(mod.enumerate_cases(tier)))
            ns = max(1, min(16, b.get("enum_shards", 16), ncases))
            jobs += [("enum", i, ns) for i in range(ns)]
            exhaustive = not hasattr(mod, "strategy") and not hasattr(mod, "run_custom")
        if hasattr(mod, "strategy"):
            ns = max(1, min(16, b["shards"]))
            jobs += [("given", i, ns) for i in range(ns)]
        if hasattr(mod, "run_custom"):
            ns = max(1, min(16, b["custom_shards"] or 1))
            jobs += [("custom", i, ns) for i in range(ns)]

        procs = []
        pending = list(jobs)
        running = []
        results = []
        maxpar = int(os.environ.get("VERIF_JOBS", "16"))
        hard = b["wall_s"] * 5 + 300
        while pending or running:
            while pending and len(running) < maxpar:
                mode, i, ns = pending.pop(0)
                out = workdir / f"{mode}-{i}.json"
                log = workdir / f"{mode}-{i}.log"
                sub = workdir / f"tmp-{mode}-{i}"
                sub.mkdir()
                p = spawn(
                    [pid, "--tier", tier, "--seed", str(seed), "--shard", str(i), "--nshards", str(ns),
                     "--mode", mode, "--out", str(out)],
                    sub, log,
                )
                running.append((p, mode, i, out, log, time.time()))
            time.sleep(0.05)
            still = []
            for rec in running:
                p, mode, i, out, log, ts = rec
                rc = p.poll()
                if rc is None:
                    if time.time() - ts > hard:
                        p.kill()
                        raise HarnessError(f"shard {mode}-{i} exceeded hard limit {hard}s")
                    still.append(rec)
                    continue
                if rc != 0 or not out.exists():
                    tail = pathlib.Path(log).read_text()[-3000:]
                    for q, *_ in running:
                        if q.poll() is None:
                            q.kill()
                    raise HarnessError(f"shard {mode}-{i} failed rc={rc}\n{tail}")
                results.append(json.loads(out.read_text()))
            running = still
        for d in results:
            acc.merge(d)

        # 3. classify violations
        new = {}
        known_hit = {}
        for bucket, lst in acc.violations.items():
            size, case, msg = lst[0]
            k = match_known(pid, bucket, case, known)
            if k is not None:
                known_hit.setdefault(k["what"], 0)
                known_hit[k["what"]] += acc.violation_count[bucket]
            else:
                new[bucket] = (case, msg)
        for what in known_hit:
            print(f"KNOWN-FINDING: property={pid} {what}")
        for k in known:  # listed findings this run's cases did not reach (e.g. only the thorough tier generates them)
            if k.get("property") == pid and k.get("status") == "open" and k["what"] not in known_hit:
                print(f"KNOWN-FINDING: property={pid} {k['what']} [listed; not re-exercised by the cases of this run]")

        # 4. shrink new buckets and write replays
        replays = []
        if new:
            rdir = VERIF / "replays" / pid
            rdir.mkdir(parents=True, exist_ok=True)
            for bucket, (case, msg) in sorted(new.items()):
                best, bmsg = case, msg
                if hasattr(mod, "strategy") and b["shrink_s"] > 0 and not os.environ.get("VERIF_NO_SHRINK"):
                    got = shrink(pid, tier, seed, bucket, workdir, b["shrink_s"], min(16, b["shards"]))
                    if got is not None and jsize(got[0]) <= jsize(case):
                        # confirm the shrunk case reproduces as a plain call
                        res = safe_check(mod, got[0])
                        if any(v.bucket == bucket for v in res.violations):
                            best, bmsg = got
                path = rdir / f"{jhash(bucket)[:12]}.json"
                path.write_text(json.dumps({"bucket": bucket, "message": bmsg, "case": best}, indent=1))
                replays.append((bucket, bmsg, path))

        wall = time.time() - t0
        samples = list(acc.samples) + [c for _, c in acc.late_samples]
        if not samples and acc.evaluations:
            samples = ["(no non-trivial case produced)"]
        ev = {
            "property_id": pid,
            "tier": tier,
            "seed": seed,
            "level": getattr(mod, "LEVEL", "exploration"),
            "coverage": {
                "evaluations": acc.evaluations,
                "distinct_nontrivial": len(acc.nontrivial),
                "rule": mod.RULE,
                "samples": samples[: Accumulator.MAX_SAMPLES],
                "classes": dict(sorted(acc.classes.items())),
                "discarded": dict(acc.discarded),
                "exhaustive": bool(exhaustive),
                "regression_replays": n_reg,
                "budget_skipped": acc.budget_skipped,
                "excluded_known": sum(known_hit.values()),
                "known_findings_seen": sorted(known_hit),
                "new_violation_buckets": sorted(new),
                "technique": getattr(mod, "TECHNIQUE", ""),
            },
            "assumptions": list(getattr(mod, "ASSUMPTIONS", [])),
            "wall_s": round(wall, 2),
            "violations": len(new),
        }
        if len(acc.nontrivial) < 2:
            raise HarnessError(
                f"only {len(acc.nontrivial)} distinct non-trivial case(s) out of {acc.evaluations} evaluations "
                f"(budget_skipped={acc.budget_skipped}, discarded={dict(acc.discarded)}): no valid evidence can be written"
            )
        if hasattr(mod, "evidence_extra"):
            ev["coverage"].update(mod.evidence_extra(tier))
        validate_evidence(ev)
        evdir = pathlib.Path(os.environ.get("VERIF_EVIDENCE_DIR", str(VERIF / "evidence")))
        evdir.mkdir(parents=True, exist_ok=True)
        (evdir / f"{pid}.json").write_text(json.dumps(ev, indent=1, sort_keys=True) + "\n")

        note = " (budget hit: inconclusive for the skipped part)" if acc.budget_skipped else ""
        print(
            f"property={pid} tier={tier} seed={seed} evaluations={acc.evaluations} "
            f"distinct_nontrivial={len(acc.nontrivial)} known={sum(known_hit.values())} "
            f"new_buckets={len(new)} wall={wall:.1f}s{note}"
        )
        if replays:
            for bucket, msg, path in replays:
                print(f"  bucket={bucket}: {msg[:500]}")
                print(f"VIOLATION property={pid} replay={path}")
            return 1
        if acc.evaluations == 0:
            raise HarnessError("no case was evaluated")
        return 0
    finally:
        shutil.rmtree(workdir, ignore_errors=True)


def shrink(pid, tier, seed, bucket, workdir, budget_s, nshards):
    """Let Hypothesis shrink one bucket in sub-processes under a wall-clock budget.

    Every shard seed is tried in parallel; the smallest failing case recorded wins."""
    procs = []
    for i in range(nshards):
        out = workdir / f"shrink-{jhash(bucket)[:8]}-{i}.json"
        sub = workdir / f"tmp-shrink-{jhash(bucket)[:8]}-{i}"
        sub.mkdir(exist_ok=True)
        p = spawn(
            [pid, "--tier", tier, "--seed", str(seed), "--shard", str(i), "--nshards", str(nshards),
             "--mode", "shrink", "--out", str(out), "--bucket", bucket],
            sub, workdir / f"shrink-{i}.log",
        )
        procs.append((p, out))
    t0 = time.time()
    while time.time() - t0 < budget_s and any(p.poll() is None for p, _ in procs):
        time.sleep(0.2)
    best = None
    for p, out in procs:
        if p.poll() is None:
            p.kill()
            p.wait()
        if out.exists():
            try:
                d = json.loads(out.read_text())
            except Exception:
                continue
            if best is None or jsize(d["case"]) < jsize(best[0]):
                best = (d["case"], d["message"])
    return best


if __name__ == "__main__":
    main()

"""Engine R helpers: tiny runcards as plain JSON dictionaries, solving, loading operators.

A *card case* is a flat JSON dict (see ``DEFAULT``).  Cards are always built through
``TheoryCard.from_dict`` / ``OperatorCard.from_dict`` – the path every real caller uses.
"""

from __future__ import annotations

import copy
import math
import os
import pathlib
import shutil
import tempfile

import numpy as np

METHODS = [
    "iterate-exact",
    "iterate-expanded",
    "perturbative-exact",
    "perturbative-expanded",
    "truncated",
    "ordered-truncated",
    "decompose-exact",
    "decompose-expanded",
]

DEFAULT = dict(
    order=[1, 0],
    alphas=0.2,
    alphaem=0.007496252,
    ref=[10.0, 4],
    em_running=False,
    masses=[1.5, 4.5, 173.0],
    ratios=[1.0, 1.0, 1.0],
    scheme="POLE",
    xif=1.0,
    n3lo=[0, 0, 0, 0, 0, 0, 0],
    use_fhmruvv=True,
    matching_order=None,
    init=[2.0, 4],
    mugrid=[[4.0, 4]],
    xgrid=[0.1, 0.5, 1.0],
    method="iterate-exact",
    max_order=[10, 0],
    iters=2,
    deg=1,
    is_log=True,
    sv=None,
    inv=None,
    cores=1,
    pol=False,
    tl=False,
)


def full(case):
    c = copy.deepcopy(DEFAULT)
    c.update(case)
    return c


def raw_theory(case):
    c = full(case)
    th = dict(
        order=list(c["order"]),
        couplings=dict(
            alphas=c["alphas"],
            alphaem=c["alphaem"],
            ref=[c["ref"][0], c["ref"][1]],
            em_running=c["em_running"],
        ),
        heavy=dict(
            masses=[[m, (float("nan") if c["scheme"] == "POLE" else (s if (s := c.get("mass_refs", [None] * 3)[i]) else m))]
                    for i, m in enumerate(c["masses"])],
            masses_scheme=c["scheme"],
            matching_ratios=list(c["ratios"]),
        ),
        xif=c["xif"],
        n3lo_ad_variation=list(c["n3lo"]),
        use_fhmruvv=c["use_fhmruvv"],
    )
    if c["matching_order"] is not None:
        th["matching_order"] = list(c["matching_order"])
    return th


def raw_operator(case):
    c = full(case)
    return dict(
        init=[c["init"][0], c["init"][1]],
        mugrid=[[m, n] for m, n in c["mugrid"]],
        xgrid=list(c["xgrid"]),
        configs=dict(
            evolution_method=c["method"],
            ev_op_max_order=list(c["max_order"]),
            ev_op_iterations=c["iters"],
            interpolation_polynomial_degree=c["deg"],
            interpolation_is_log=c["is_log"],
            scvar_method=c["sv"],
            inversion_method=c["inv"],
            n_integration_cores=c["cores"],
            polarized=c["pol"],
            time_like=c["tl"],
        ),
        debug=dict(skip_singlet=False, skip_non_singlet=False),
    )


def cards(case):
    from eko.io.runcards import OperatorCard, TheoryCard

    return TheoryCard.from_dict(raw_theory(case)), OperatorCard.from_dict(raw_operator(case))


def fresh_dir(prefix="vf-"):
    return pathlib.Path(tempfile.mkdtemp(prefix=prefix))


def solve_to(case, path):
    """Run eko.solve for the card case, writing the archive at ``path``."""
    import eko

    th, op = cards(case)
    eko.solve(th, op, pathlib.Path(path))


def load_all(path, with_parts=False):
    """Return {(mu2, nf): (operator, error)} (and optionally the parts) of an archive."""
    from eko.io.struct import EKO

    out = {}
    with EKO.read(pathlib.Path(path)) as ev:
        for ep, op in ev.items():
            out[(float(ep[0]), int(ep[1]))] = (np.array(op.operator), None if op.error is None else np.array(op.error))
    return out


def solve(case, keep=False):
    """Solve in a scratch directory and return the operators; the directory is removed."""
    d = fresh_dir()
    try:
        p = d / "out.tar"
        solve_to(case, p)
        return load_all(p)
    finally:
        if not keep:
            shutil.rmtree(d, ignore_errors=True)


def log_grid(n, xmin):
    return np.geomspace(xmin, 1.0, n).tolist()


# ----------------------------------------------------------------------------- strategies


def st_xgrid(min_pts=2, max_pts=8):
    """Log-spaced-with-jitter grids ending at 1, with degree <= points-1 (and <= 4)."""
    from hypothesis import strategies as st

    @st.composite
    def build(draw):
        n = draw(st.integers(min_pts, max_pts))
        xmin = 10 ** draw(st.floats(-3, math.log10(0.3)))
        steps = [draw(st.floats(0.6, 1.6)) for _ in range(n - 1)]
        cum = np.cumsum(steps)
        logs = math.log(xmin) * (1 - cum / cum[-1])  # from ... to 0
        xs = [xmin] + [float(math.exp(l)) for l in logs]
        xs[-1] = 1.0
        xs = sorted(set(xs))
        deg = draw(st.integers(1, min(4, len(xs) - 1)))
        return xs, deg

    return build()


def consistent_masses(draw, st, lo=1.3, hi=400.0):
    """Three increasing masses with sensible gaps."""
    mc = draw(st.floats(1.3, 2.0))
    mb = draw(st.floats(3.5, 6.0))
    mt = draw(st.floats(100.0, 200.0))
    return [mc, mb, mt]


def scale_in_patch(draw, st, nf, walls, lo=1.0, hi=1000.0, margin=1.05):
    """A linear scale (GeV) strictly inside the nf patch given the 3 matching scales (linear)."""
    bounds = [lo] + list(walls) + [hi]
    a = max(lo, bounds[nf - 3] * margin) if nf > 3 else lo
    b = min(hi, bounds[nf - 2] / margin) if nf < 6 else hi
    if a >= b:
        a, b = b * 0.9, b
    u = draw(st.floats(0, 1))
    return float(math.exp(math.log(a) + u * (math.log(b) - math.log(a))))


def lo_alpha(alpha_low, mu_low, mu, nf=3):
    """LO running from mu_low to mu (linear scales) — only used to place generated couplings sensibly."""
    b0 = 11.0 - 2.0 / 3.0 * nf
    return alpha_low / (1.0 + b0 * alpha_low / (4 * math.pi) * math.log(mu**2 / mu_low**2))


def walls_of(case):
    c = full(case)
    return [m * r for m, r in zip(c["masses"], c["ratios"])]


def natural_nf(mu, walls):
    return 3 + sum(1 for w in walls if mu >= w)


def st_tiny_card(
    orders=(1, 2, 3, 4),
    qed=(0,),
    methods=tuple(METHODS),
    n_extra_targets=(0, 1),
    target_is_init=False,
    sv=(None,),
    flags=((False, False),),
    grid_pts=(2, 4),
    weird_nf=0.25,
    nf0_choices=(3, 4, 5, 6),
    max_scale=300.0,
    iters=(1, 4),
    ratios_unit=False,
):
    """General tiny runcard strategy (JSON dict accepted by ``cards``).

    Scales: matching scales (mass*ratio) are constructed sorted (>= ~1 GeV); each evolution point is a
    (scale, nf) pair, usually inside its natural patch, sometimes (``weird_nf``) with another nf – both are
    valid inputs (paths are defined by nf, DESIGN C19).  alpha_s is fixed at the lowest scale appearing on
    any path (0.1–0.35) and transported to the reference point with the LO formula, so that the coupling stays
    perturbative everywhere.  Downward matchings get an explicit inversion method.
    """
    from hypothesis import strategies as st

    @st.composite
    def build(draw):
        qcd = draw(st.sampled_from(orders))
        qe = draw(st.sampled_from(qed))
        pol, tl = draw(st.sampled_from(flags))
        method = draw(st.sampled_from(methods))
        # thresholds
        rc = 1.0 if ratios_unit else draw(st.floats(0.75, 2.0))
        mc = draw(st.floats(1.3, 1.8))
        wc = mc * rc
        mb = draw(st.floats(4.0, 5.5))
        rb = 1.0 if ratios_unit else draw(st.floats(max(0.5, 1.2 * wc / mb), 2.0))
        mt = draw(st.floats(150.0, 180.0))
        rt = 1.0 if ratios_unit else draw(st.floats(0.5, 2.0))
        walls = [wc, mb * rb, mt * rt]

        def point(nf_choices=(3, 4, 5, 6)):
            if draw(st.floats(0, 1)) < weird_nf:
                nf = draw(st.sampled_from(nf_choices))
                mu = math.exp(draw(st.floats(math.log(1.0), math.log(max_scale))))
            else:
                nf = draw(st.sampled_from(nf_choices))
                mu = scale_in_patch(draw, st, nf, walls, lo=1.0, hi=max_scale)
            return [float(mu), int(nf)]

        init = point(nf0_choices)
        targets = []
        if target_is_init:
            targets.append(list(init))
        nextra = draw(st.integers(*n_extra_targets))
        for _ in range(nextra):
            targets.append(point())
        if not targets:
            targets.append(point())
        # dedupe evolution points
        seen, mugrid = set(), []
        for t in targets:
            if (t[0], t[1]) not in seen:
                seen.add((t[0], t[1]))
                mugrid.append(t)
        # lowest scale on any path: the points and the walls between their nf's
        scales = [init[0]] + [t[0] for t in mugrid]
        for t in mugrid:
            lo_nf, hi_nf = sorted((init[1], t[1]))
            for nfw in range(lo_nf, hi_nf):
                scales.append(walls[nfw - 3])
        ref_is_init = draw(st.booleans())
        if ref_is_init:
            ref = list(init)
        else:
            mu_ref = math.exp(draw(st.floats(math.log(2.0), math.log(200.0))))
            ref = [float(mu_ref), natural_nf(mu_ref, walls)]
        for nfw in range(min(ref[1], init[1]), max(ref[1], init[1])):
            scales.append(walls[nfw - 3])
        scales.append(ref[0])
        mu_low = min(scales)
        alpha_low = draw(st.floats(0.1, 0.35))
        alphas = lo_alpha(alpha_low, mu_low, ref[0])
        xs, deg = draw(st_xgrid(*grid_pts))
        svm = draw(st.sampled_from(sv))
        xif = 1.0
        if svm is not None:
            xif = draw(st.sampled_from([1.0, 0.5, 2.0, 0.7071067811865476, 1.4142135623730951])) if draw(
                st.booleans()
            ) else draw(st.floats(0.5, 2.0))
        downward = any(t[1] < init[1] for t in mugrid)
        inv = draw(st.sampled_from(["exact", "expanded"])) if downward else draw(
            st.sampled_from([None, "exact", "expanded"])
        )
        case = dict(
            order=[qcd, qe],
            alphas=float(alphas),
            alphaem=draw(st.floats(0.005, 0.01)) if qe > 0 else 0.007496252,
            ref=ref,
            em_running=draw(st.booleans()) if qe > 0 else False,
            masses=[mc, mb, mt],
            ratios=[rc, rb, rt],
            xif=float(xif),
            init=init,
            mugrid=mugrid,
            xgrid=xs,
            deg=deg,
            method=method,
            iters=draw(st.integers(*iters)),
            max_order=[draw(st.integers(max(2, qcd), 8)), qe],  # the U expansion needs at least the evolution order
            sv=svm,
            inv=inv,
            pol=pol,
            tl=tl,
        )
        if qcd == 4:
            case["n3lo"] = [draw(st.integers(0, 2)) for _ in range(7)] if draw(st.booleans()) else [0] * 7
            case["use_fhmruvv"] = draw(st.booleans())
        return case

    return build()


def path_blocks(case):
    """Matched path (list of repo Segment/Matching) for every target, using the repo Atlas."""
    from eko.runner import commons

    th, op = cards(case)
    atlas = commons.atlas(th, op)
    return {tuple(ep): atlas.matched_path(ep) for ep in op.evolgrid}


def _solve_one(case):
    try:
        return ("ok", solve(case))
    except (NotImplementedError, ValueError) as e:
        return ("refused", f"{type(e).__name__}: {e}")
    except Exception as e:  # noqa: BLE001 - reported to the caller, which decides
        import traceback

        return ("crash", f"{type(e).__name__}: {e}", traceback.format_exc()[-1500:])


class SolveRefused(Exception):
    pass


class SolveCrashed(Exception):
    pass


def solve_many(cases, workers=4):
    """Solve several independent card cases in forked worker processes (module-level patches such as a tightened
    quadrature are inherited by the children).  Returns the list of operator dictionaries; raises SolveRefused /
    SolveCrashed like a sequential loop of ``solve`` would have surfaced NotImplementedError / other exceptions."""
    import multiprocessing as mp
    from concurrent.futures import ProcessPoolExecutor

    if workers <= 1 or len(cases) <= 1:
        outs = [_solve_one(c) for c in cases]
    else:
        with ProcessPoolExecutor(max_workers=min(workers, len(cases)), mp_context=mp.get_context("fork")) as ex:
            outs = list(ex.map(_solve_one, cases))
    res = []
    for o in outs:
        if o[0] == "refused":
            raise SolveRefused(o[1])
        if o[0] == "crash":
            raise SolveCrashed(o[1])
        res.append(o[1])
    return res

"""Engine R helpers: tiny runcards as plain JSON dictionaries, solving, loading operators.

A *card case* is a flat JSON dict (see ``DEFAULT``).  Cards are always built through
``TheoryCard.from_dict`` / ``OperatorCard.from_dict`` – the path every real caller uses.
"""

from __future__ import annotations

import copy
import math
import os
import pathlib
import shutil
import tempfile

import numpy as np

METHODS = [
    "iterate-exact",
    "iterate-expanded",
    "perturbative-exact",
    "perturbative-expanded",
    "truncated",
    "ordered-truncated",
    "decompose-exact",
    "decompose-expanded",
]

DEFAULT = dict(
    order=[1, 0],
    alphas=0.2,
    alphaem=0.007496252,
    ref=[10.0, 4],
    em_running=False,
    masses=[1.5, 4.5, 173.0],
    ratios=[1.0, 1.0, 1.0],
    scheme="POLE",
    xif=1.0,
    n3lo=[0, 0, 0, 0, 0, 0, 0],
    use_fhmruvv=True,
    matching_order=None,
    init=[2.0, 4],
    mugrid=[[4.0, 4]],
    xgrid=[0.1, 0.5, 1.0],
    method="iterate-exact",
    max_order=[10, 0],
    iters=2,
    deg=1,
    is_log=True,
    sv=None,
    inv=None,
    cores=1,
    pol=False,
    tl=False,
)


def full(case):
    c = copy.deepcopy(DEFAULT)
    c.update(case)
    return c


def raw_theory(case):
    c = full(case)
    th = dict(
        order=list(c["order"]),
        couplings=dict(
            alphas=c["alphas"],
            alphaem=c["alphaem"],
            ref=[c["ref"][0], c["ref"][1]],
            em_running=c["em_running"],
        ),
        heavy=dict(
            masses=[[m, (float("nan") if c["scheme"] == "POLE" else (s if (s := c.get("mass_refs", [None] * 3)[i]) else m))]
                    for i, m in enumerate(c["masses"])],
            masses_scheme=c["scheme"],
            matching_ratios=list(c["ratios"]),
        ),
        xif=c["xif"],
        n3lo_ad_variation=list(c["n3lo"]),
        use_fhmruvv=c["use_fhmruvv"],
    )
    if c["matching_order"] is not None:
        th["matching_order"] = list(c["matching_order"])
    return th


def raw_operator(case):
    c = full(case)
    return dict(
        init=[c["init"][0], c["init"][1]],
        mugrid=[[m, n] for m, n in c["mugrid"]],
        xgrid=list(c["xgrid"]),
        configs=dict(
            evolution_method=c["method"],
            ev_op_max_order=list(c["max_order"]),
            ev_op_iterations=c["iters"],
            interpolation_polynomial_degree=c["deg"],
            interpolation_is_log=c["is_log"],
            scvar_method=c["sv"],
            inversion_method=c["inv"],
            n_integration_cores=c["cores"],
            polarized=c["pol"],
            time_like=c["tl"],
        ),
        debug=dict(skip_singlet=False, skip_non_singlet=False),
    )


def cards(case):
    from eko.io.runcards import OperatorCard, TheoryCard

    return TheoryCard.from_dict(raw_theory(case)), OperatorCard.from_dict(raw_operator(case))


def fresh_dir(prefix="vf-"):
    return pathlib.Path(tempfile.mkdtemp(prefix=prefix))


def solve_to(case, path):
    """Run eko.solve for the card case, writing the archive at ``path``."""
    import eko

    th, op = cards(case)
    eko.solve(th, op, pathlib.Path(path))


def load_all(path, with_parts=False):
    """Return {(mu2, nf): (operator, error)} (and optionally the parts) of an archive."""
    from eko.io.struct import EKO

    out = {}
    with EKO.read(pathlib.Path(path)) as ev:
        for ep, op in ev.items():
            out[(float(ep[0]), int(ep[1]))] = (np.array(op.operator), None if op.error is None else np.array(op.error))
    return out


def solve(case, keep=False):
    """Solve in a scratch directory and return the operators; the directory is removed."""
    d = fresh_dir()
    try:
        p = d / "out.tar"
        solve_to(case, p)
        return load_all(p)
    finally:
        if not keep:
            shutil.rmtree(d, ignore_errors=True)


def log_grid(n, xmin):
    return np.geomspace(xmin, 1.0, n).tolist()


# ----------------------------------------------------------------------------- strategies


def st_xgrid(min_pts=2, max_pts=8):
    """Log-spaced-with-jitter grids ending at 1, with degree <= points-1 (and <= 4)."""
    from hypothesis import strategies as st

    @st.composite
    def build(draw):
        n = draw(st.integers(min_pts, max_pts))
        xmin = 10 ** draw(st.floats(-3, math.log10(0.3)))
        steps = [draw(st.floats(0.6, 1.6)) for _ in range(n - 1)]
        cum = np.cumsum(steps)
        logs = math.log(xmin) * (1 - cum / cum[-1])  # from ... to 0
        xs = [xmin] + [float(math.exp(l)) for l in logs]
        xs[-1] = 1.0
        xs = sorted(set(xs))
        deg = draw(st.integers(1, min(4, len(xs) - 1)))
        return xs, deg

    return build()


def consistent_masses(draw, st, lo=1.3, hi=400.0):
    """Three increasing masses with sensible gaps."""
    mc = draw(st.floats(1.3, 2.0))
    mb = draw(st.floats(3.5, 6.0))
    mt = draw(st.floats(100.0, 200.0))
    return [mc, mb, mt]


def scale_in_patch(draw, st, nf, walls, lo=1.0, hi=1000.0, margin=1.05):
    """A linear scale (GeV) strictly inside the nf patch given the 3 matching scales (linear)."""
    bounds = [lo] + list(walls) + [hi]
    a = max(lo, bounds[nf - 3] * margin) if nf > 3 else lo
    b = min(hi, bounds[nf - 2] / margin) if nf < 6 else hi
    if a >= b:
        a, b = b * 0.9, b
    u = draw(st.floats(0, 1))
    return float(math.exp(math.log(a) + u * (math.log(b) - math.log(a))))

"""python -m vf.solve_cli <case.json> <out.tar>: solve one runner_util card case in a fresh process."""

import json
import sys

from vf import core

core.setup_paths()
core.assert_tree()

from vf import runner_util as ru  # noqa: E402

case = json.load(open(sys.argv[1]))
try:
    ru.solve_to(case, sys.argv[2])
except (NotImplementedError, ValueError) as e:
    print(f"REFUSED {type(e).__name__}: {e}")
    sys.exit(3)
print("SOLVED")

#!/venv/bin/python
"""Regenerate the table of seeded changes inside DESIGN.md (between the seed-table markers)."""
import pathlib
import subprocess

V = pathlib.Path(__file__).resolve().parent.parent
table = subprocess.run([str(V / "tools" / "seed_table.py")], capture_output=True, text=True, check=True).stdout
p = V / "DESIGN.md"
s = p.read_text()
a, b = "<!-- seed-table-begin -->", "<!-- seed-table-end -->"
i, j = s.index(a) + len(a), s.index(b)
p.write_text(s[:i] + "\n" + table + s[j:])
print(table.count("\n") - 2, "rows")

#!/venv/bin/python
"""Regenerate the table of thorough-tier runs inside DESIGN.md from .work/thorough (latest run of each check)."""
import json
import pathlib
import re

V = pathlib.Path(__file__).resolve().parent.parent
T = V / ".work" / "thorough"
last = {}
for line in (T / "summary.txt").read_text().splitlines():
    m = re.match(r"(C\d\d) rc=(\d+) (\d+)s (\d+) violations", line)
    if m:
        last[m.group(1)] = (int(m.group(2)), int(m.group(3)), int(m.group(4)))
rows = []
for cid in sorted(last):
    rc, secs, nv = last[cid]
    ev = T / "evidence" / f"{cid}.json"
    n = nt = "?"
    if ev.exists():
        e = json.loads(ev.read_text())
        cov = e.get("coverage", e)
        n, nt = cov.get("evaluations", "?"), cov.get("distinct_nontrivial", "?")
    out = (T / f"{cid}.out").read_text() if (T / f"{cid}.out").exists() else ""
    known = len(re.findall(r"^KNOWN-FINDING", out, re.M))
    note = "quiet" if rc == 0 and not known else (f"{known} KNOWN-FINDING line(s), no new violation" if rc == 0 else f"exit {rc}: see text")
    rows.append(f"| {cid} | {n} | {nt} | {secs} | {note} |")
table = "| check | evaluations | distinct non-trivial | wall s | outcome |\n|---|---|---|---|---|\n" + "\n".join(rows) + "\n"
p = V / "DESIGN.md"
s = p.read_text()
a, b = "<!-- thorough-table-begin -->", "<!-- thorough-table-end -->"
i, j = s.index(a) + len(a), s.index(b)
p.write_text(s[:i] + "\n" + table + s[j:])
print(len(rows), "rows")

#!/bin/bash
# run the quick tier of every check (or the ids given) against /repo, writing the committed evidence files; logs in .work/quick
out=/verif/.work/quick; mkdir -p $out
ids="$@"; [ -z "$ids" ] && ids=$(python3 -c "import json; print(' '.join(c['property_id'] for c in json.load(open('/verif/MANIFEST.json'))['checks']))")
for id in $ids; do
  s=$(date +%s)
  /verif/check $id --tier quick > $out/$id.out 2>&1
  echo "$id rc=$? $(( $(date +%s) - s ))s $(grep -c '^VIOLATION' $out/$id.out) violations $(grep -c '^KNOWN-FINDING' $out/$id.out) known" | tee -a $out/summary.txt
done

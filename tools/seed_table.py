#!/venv/bin/python
"""Print the markdown table of seeded changes (DESIGN.md section 9.4) from seeded/*/meta.json and notes.md."""
import json
import pathlib
import re

V = pathlib.Path(__file__).resolve().parent.parent
rows = []
for d in sorted((V / "seeded").iterdir()):
    m = json.loads((d / "meta.json").read_text())
    notes = (d / "notes.md").read_text() if (d / "notes.md").exists() else ""
    files = sorted(set(re.findall(r"^\+\+\+ b/(\S+)", (d / "patch.diff").read_text(), re.M)))
    caught = []
    for cid, r in m["our_checks"].items():
        b = r["buckets"][0].split(":")[0].replace("bucket=", "") if r["buckets"] else ""
        caught.append(f"{cid} exit {r['rc']}" + (f" (`{b}`)" if b else ""))
    hist = " — first missed, check strengthened" if "history" in m else ""
    rows.append(f"| {d.name} | {m['property']} | {', '.join(f.split('/')[-1] for f in files)} | {'; '.join(caught)}{hist} |")
print("| seeded change | property | file(s) changed | our check(s) on the changed tree |")
print("|---|---|---|---|")
print("\n".join(rows))

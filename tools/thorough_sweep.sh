#!/bin/bash
# run the thorough tier of every check (or the ids given) once, evidence redirected, logs under /verif/.work/thorough
out=/verif/.work/thorough; mkdir -p $out/evidence
ids="$@"; [ -z "$ids" ] && ids=$(python3 -c "import json; print(' '.join(c['property_id'] for c in json.load(open('/verif/MANIFEST.json'))['checks']))")
for id in $ids; do
  s=$(date +%s)
  VERIF_SEED=${VERIF_SEED:-2} VERIF_EVIDENCE_DIR=$out/evidence /verif/check $id --tier thorough > $out/$id.out 2>&1
  echo "$id rc=$? $(( $(date +%s) - s ))s $(grep -c VIOLATION $out/$id.out) violations" | tee -a $out/summary.txt
done

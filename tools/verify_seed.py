#!/venv/bin/python
"""Confirm a seeded change and run our checks against it.

usage: tools/verify_seed.py <seed-dir> <property-id> [--checks C02,C03] [--skip-suite] [--tier quick]

<seed-dir> holds patch.diff, demo.py, notes.md (as produced by an independent sub-agent).  Steps, all in a scratch git
worktree of /repo (removed afterwards):
  1. demo on the clean tree must exit 0;  2. patch must apply;  3. demo on the changed tree must exit != 0;
  4. the pinned test suite (BASELINE command) must still pass every stable test;  5. our check(s) are run with
  VERIF_REPO=<worktree> and their exit codes recorded.
Result: JSON on stdout and, if everything is confirmed, the files are copied to /verif/seeded/<name>/ with meta.json.
"""
import argparse
import json
import os
import pathlib
import shutil
import subprocess
import sys
import xml.etree.ElementTree as ET

VERIF = pathlib.Path(__file__).resolve().parent.parent
PY = "/venv/bin/python"


def run(cmd, **kw):
    return subprocess.run(cmd, capture_output=True, text=True, **kw)


def main():
    ap = argparse.ArgumentParser()
    ap.add_argument("seed_dir")
    ap.add_argument("pid")
    ap.add_argument("--checks", default=None)
    ap.add_argument("--skip-suite", action="store_true")
    ap.add_argument("--tier", default="quick")
    ap.add_argument("--name", default=None)
    ap.add_argument("--jobs", default="8")
    a = ap.parse_args()
    seed = pathlib.Path(a.seed_dir)
    name = a.name or f"{a.pid}-{seed.name}"
    wt = pathlib.Path(f"/tmp/sv-{name}")
    out = {"name": name, "property": a.pid, "seed_dir": str(seed)}
    run(["git", "-C", "/repo", "worktree", "remove", "--force", str(wt)])
    r = run(["git", "-C", "/repo", "worktree", "add", "--detach", str(wt), "HEAD"])
    if r.returncode:
        print(r.stderr)
        sys.exit(2)
    env = dict(os.environ, PYTHONPATH=str(wt / "src"), NUMBA_DISABLE_JIT="1", PYTHONDONTWRITEBYTECODE="1")
    try:
        d0 = run([PY, str(seed / "demo.py")], env=env, cwd=str(wt), timeout=3600)
        out["demo_clean_rc"] = d0.returncode
        ap_ = run(["git", "-C", str(wt), "apply", str(seed / "patch.diff")])
        out["patch_applies"] = ap_.returncode == 0
        if ap_.returncode:
            out["patch_error"] = ap_.stderr[-500:]
            print(json.dumps(out, indent=1))
            return
        out["files_changed"] = run(["git", "-C", str(wt), "diff", "--stat"]).stdout.strip().splitlines()[-1:]
        d1 = run([PY, str(seed / "demo.py")], env=env, cwd=str(wt), timeout=3600)
        out["demo_changed_rc"] = d1.returncode
        out["demo_changed_tail"] = (d1.stdout + d1.stderr)[-400:]
        if not a.skip_suite:
            junit = wt / "junit.xml"
            t = run([PY, "-m", "pytest", "-q", "-p", "no:cacheprovider", "--timeout=900", "--continue-on-collection-errors",
                     f"--junitxml={junit}"], env=env, cwd=str(wt))
            base = json.loads(pathlib.Path("/root/.vp/BASELINE.json").read_text())
            stable = set(base["stable_pass"])
            passed = set()
            for tc in ET.parse(junit).getroot().iter("testcase"):
                ok = not any(ch.tag in ("failure", "error", "skipped") for ch in tc)
                if ok:
                    passed.add(f"{tc.get('classname')}::{tc.get('name')}")
            missing = sorted(stable - passed)
            out["suite_stable_missing"] = missing[:20]
            out["suite_ok"] = not missing
            out["suite_tail"] = t.stdout.strip().splitlines()[-1:] if t.stdout else []
        checks = (a.checks or a.pid).split(",")
        out["checks"] = {}
        for cid in checks:
            cenv = dict(os.environ, VERIF_REPO=str(wt), VERIF_NO_SHRINK="1", VERIF_JOBS=a.jobs, VERIF_EVIDENCE_DIR=f"/tmp/sv-ev-{name}")
            c = run([str(VERIF / "check"), cid, "--tier", a.tier], env=cenv, cwd=str(VERIF))
            buckets = [l.strip() for l in c.stdout.splitlines() if l.strip().startswith("bucket=")]
            out["checks"][cid] = {"rc": c.returncode, "buckets": [b[:300] for b in buckets[:6]],
                                  "summary": [l for l in c.stdout.splitlines() if l.startswith("property=")][-1:]}
        confirmed = out["demo_clean_rc"] == 0 and out["demo_changed_rc"] != 0 and out.get("suite_ok", a.skip_suite)
        out["confirmed"] = bool(confirmed)
        if confirmed and not a.skip_suite:
            dest = VERIF / "seeded" / name
            dest.mkdir(parents=True, exist_ok=True)
            for f in ("patch.diff", "demo.py", "notes.md"):
                if (seed / f).exists():
                    shutil.copy(seed / f, dest / f)
            meta = {
                "property": a.pid,
                "what_it_needs_to_manifest": "see notes.md (written by the independent sub-agent that produced the change)",
                "confirmed_by_lead": {
                    "demo_on_clean_tree_rc": out["demo_clean_rc"],
                    "demo_on_changed_tree_rc": out["demo_changed_rc"],
                    "pinned_suite_all_stable_tests_pass": out["suite_ok"],
                    "commands": [
                        "git -C /repo worktree add --detach /tmp/sv-<name> HEAD; git apply patch.diff",
                        "PYTHONPATH=<wt>/src NUMBA_DISABLE_JIT=1 /venv/bin/python demo.py  (clean: 0, changed: !=0)",
                        "cd <wt> && PYTHONPATH=<wt>/src /venv/bin/python -m pytest -q -p no:cacheprovider --timeout=900 --continue-on-collection-errors --junitxml=...; compared with BASELINE.stable_pass",
                        "VERIF_REPO=<wt> ./check <ID> --tier quick",
                    ],
                },
                "our_checks": out["checks"],
            }
            (dest / "meta.json").write_text(json.dumps(meta, indent=1))
    finally:
        run(["git", "-C", "/repo", "worktree", "remove", "--force", str(wt)])
        shutil.rmtree(wt, ignore_errors=True)
    print(json.dumps(out, indent=1))


if __name__ == "__main__":
    main()

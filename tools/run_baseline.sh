#!/bin/bash
# run the pinned suite on a tree (default /repo) and list stable tests that no longer pass
tree="${1:-/repo}"
out="${2:-/tmp/baseline-$$.xml}"
cd "$tree" && PYTHONPATH="$tree/src" NUMBA_DISABLE_JIT=1 /venv/bin/python -m pytest -q -p no:cacheprovider --timeout=900 --continue-on-collection-errors --junitxml="$out" > "$out.log" 2>&1
/venv/bin/python - "$out" <<'PY'
import json, sys, xml.etree.ElementTree as ET
stable=set(json.load(open('/root/.vp/BASELINE.json'))['stable_pass'])
passed=set()
for tc in ET.parse(sys.argv[1]).getroot().iter('testcase'):
    if not any(ch.tag in ('failure','error','skipped') for ch in tc):
        passed.add(f"{tc.get('classname')}::{tc.get('name')}")
missing=sorted(stable-passed)
print(f"stable={len(stable)} passed_total={len(passed)} stable_missing={len(missing)}")
for m in missing: print("  MISSING", m)
PY

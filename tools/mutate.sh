#!/bin/bash
# usage: tools/mutate.sh <name> <file-relative-to-src> <python-expr-old> <python-expr-new> -- <check-id> [more ids]
# creates /tmp/mut-<name>/src with one textual replacement, runs the checks quick, prints rc, removes the copy
name="$1"; file="$2"; old="$3"; new="$4"; shift 5
dir=/tmp/mut-$name
rm -rf "$dir"; mkdir -p "$dir"; cp -r /repo/src "$dir/src"; find "$dir" -name __pycache__ -prune -exec rm -rf {} +
python3 - "$dir/src/$file" "$old" "$new" <<'PY'
import sys
p, old, new = sys.argv[1:4]
s = open(p).read()
assert s.count(old) >= 1, f"pattern not found in {p}"
open(p, "w").write(s.replace(old, new, 1))
PY
[ $? -eq 0 ] || { echo "MUTATION FAILED TO APPLY"; rm -rf "$dir"; exit 3; }
for id in "$@"; do
  VERIF_REPO="$dir" VERIF_NO_SHRINK=1 /verif/check "$id" --tier quick > "/tmp/mut-$name-$id.log" 2>&1
  echo "mutant=$name check=$id rc=$? $(grep -c VIOLATION /tmp/mut-$name-$id.log) violations: $(grep -m1 'bucket=' /tmp/mut-$name-$id.log | cut -c1-200)"
done
rm -rf "$dir"

#!/venv/bin/python
"""Regenerate MANIFEST.json from the property modules (keeps it valid and current)."""
import importlib
import json
import pathlib
import sys

VERIF = pathlib.Path(__file__).resolve().parent.parent
sys.path.insert(0, str(VERIF))
sys.path.insert(0, "/repo/src")

NOT_YET = "check not built yet in this session (planned in DESIGN.md section 4)"
NA_REASONS = {}

props = [json.loads(l) for l in (VERIF / "properties.jsonl").read_text().splitlines() if l.strip()]
checks, na = [], []
for p in props:
    pid = p["id"]
    hits = sorted((VERIF / "vf" / "props").glob(f"{pid.lower()}_*.py"))
    if not hits:
        na.append({"property_id": pid, "reason": NA_REASONS.get(pid, NOT_YET)})
        continue
    mod = importlib.import_module(f"vf.props.{hits[0].stem}")
    if getattr(mod, "NOT_APPLICABLE", None):
        na.append({"property_id": pid, "reason": mod.NOT_APPLICABLE})
        continue
    checks.append(
        {
            "property_id": pid,
            "quick_cmd": f"./check {pid} --tier quick",
            "thorough_cmd": f"./check {pid} --tier thorough",
            "evidence_file": f"/verif/evidence/{pid}.json",
            "replay_cmd_template": f"./check {pid} --replay {{path}}",
            "engine": getattr(mod, "ENGINE", "vf"),
            "level_claimed": {
                "category": mod.LEVEL,
                "text": getattr(mod, "LEVEL_TEXT", mod.RULE),
                "design_ref": f"DESIGN.md section 4, {pid}",
            },
            "level_note": "; ".join(mod.ASSUMPTIONS),
            "technique": mod.TECHNIQUE,
        }
    )
man = {
    "version": 1,
    "setup_cmd": "./setup.sh",
    "hooks": {
        "guard": "EKO_VERIF",
        "enable": "no source hooks: all instrumentation is applied from the harness process by wrapping module attributes; the guard variable is unused by the sources",
        "baseline_off_cmd": "cd /repo && /venv/bin/python -m pytest -ra -q -p no:cacheprovider --timeout=900 --continue-on-collection-errors",
        "source_commits": [],
        "add_only": True,
    },
    "engines": [
        {
            "name": "vf",
            "path": "/verif/vf",
            "serves_properties": [c["property_id"] for c in checks],
            "kind_free_text": "Hypothesis-driven property-based testing harness: sharded generation in fresh processes, "
            "collect-then-shrink by bucket, JSON replays, known-findings file",
        }
    ],
    "checks": checks,
    "notes": "All checks: ./check <ID> --tier quick|thorough, honour VERIF_SEED; see DESIGN.md.",
    "not_applicable": na,
}
import jsonschema

jsonschema.validate(man, json.loads((VERIF / "schemas" / "MANIFEST.schema.json").read_text()))
(VERIF / "MANIFEST.json").write_text(json.dumps(man, indent=1) + "\n")
print(f"{len(checks)} checks, {len(na)} not_applicable")

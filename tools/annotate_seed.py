#!/venv/bin/python
"""Add / replace the 'history' note of a seeded change: tools/annotate_seed.py <name> <text>."""
import json
import pathlib
import sys

p = pathlib.Path(__file__).resolve().parent.parent / "seeded" / sys.argv[1] / "meta.json"
m = json.loads(p.read_text())
m["history"] = sys.argv[2]
p.write_text(json.dumps(m, indent=1) + "\n")

#!/bin/bash
# offline setup: hypothesis into /venv if missing; mpmath + sympy beside the harness
set -e
here="$(cd "$(dirname "$0")" && pwd)"
cd "$here"
/venv/bin/python -c "import hypothesis" 2>/dev/null || /venv/bin/pip install -q --no-index --find-links /opt/veriftools/wheels hypothesis
if [ ! -d .deps/mpmath ] || [ ! -d .deps/sympy ]; then
  /venv/bin/pip install -q --no-index --find-links /opt/veriftools/wheels --target .deps mpmath sympy
fi
mkdir -p .work .build evidence
echo setup ok

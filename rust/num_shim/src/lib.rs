//! Self-contained subset of the `num` facade crate, sufficient for `crates/ekore`.
//!
//! The arithmetic follows the formulas of `num-complex` 0.4 and `num-traits` 0.2 operation by operation
//! (multiplication, division by the conjugate over `norm_sqr`, square-and-multiply integer powers,
//! `ln` / `exp` / `powc` through polar form), so results differ from the real crates by at most a few
//! ulp.  This crate is part of the trusted base of check C28.

#![allow(clippy::all)]

pub mod traits {
    /// Additive identity.
    pub trait Zero: Sized {
        fn zero() -> Self;
        fn is_zero(&self) -> bool;
        fn set_zero(&mut self) {
            *self = Self::zero();
        }
    }

    /// Multiplicative identity.
    pub trait One: Sized {
        fn one() -> Self;
        fn is_one(&self) -> bool;
        fn set_one(&mut self) {
            *self = Self::one();
        }
    }

    /// Binary operator for raising a value to a power.
    pub trait Pow<RHS> {
        type Output;
        fn pow(self, rhs: RHS) -> Self::Output;
    }

    /// Multiplicative inverse.
    pub trait Inv {
        type Output;
        fn inv(self) -> Self::Output;
    }

    macro_rules! zero_one {
        ($($t:ty, $z:expr, $o:expr;)*) => {$(
            impl Zero for $t {
                #[inline] fn zero() -> $t { $z }
                #[inline] fn is_zero(&self) -> bool { *self == $z }
            }
            impl One for $t {
                #[inline] fn one() -> $t { $o }
                #[inline] fn is_one(&self) -> bool { *self == $o }
            }
        )*};
    }
    zero_one! {
        f64, 0.0, 1.0; f32, 0.0, 1.0;
        i8, 0, 1; i16, 0, 1; i32, 0, 1; i64, 0, 1; isize, 0, 1;
        u8, 0, 1; u16, 0, 1; u32, 0, 1; u64, 0, 1; usize, 0, 1;
    }

    macro_rules! float_pow {
        ($t:ty; $($rhs:ty => $via:ty, $m:ident;)*) => {$(
            impl Pow<$rhs> for $t {
                type Output = $t;
                #[inline] fn pow(self, rhs: $rhs) -> $t { <$t>::$m(self, <$via>::from(rhs)) }
            }
            impl<'a> Pow<&'a $rhs> for $t {
                type Output = $t;
                #[inline] fn pow(self, rhs: &'a $rhs) -> $t { <$t>::$m(self, <$via>::from(*rhs)) }
            }
            impl<'a> Pow<$rhs> for &'a $t {
                type Output = $t;
                #[inline] fn pow(self, rhs: $rhs) -> $t { <$t>::$m(*self, <$via>::from(rhs)) }
            }
            impl<'a, 'b> Pow<&'a $rhs> for &'b $t {
                type Output = $t;
                #[inline] fn pow(self, rhs: &'a $rhs) -> $t { <$t>::$m(*self, <$via>::from(*rhs)) }
            }
        )*};
    }
    // the same set of right-hand sides as num-traits (which also goes through powi / powf)
    float_pow! { f64;
        i8 => i32, powi; u8 => i32, powi; i16 => i32, powi; u16 => i32, powi; i32 => i32, powi;
        f32 => f64, powf; f64 => f64, powf;
    }
    float_pow! { f32;
        i8 => i32, powi; u8 => i32, powi; i16 => i32, powi; u16 => i32, powi; i32 => i32, powi;
        f32 => f32, powf;
    }

    macro_rules! int_pow {
        ($($t:ty),*) => {$(
            impl Pow<u32> for $t {
                type Output = $t;
                #[inline] fn pow(self, rhs: u32) -> $t { <$t>::pow(self, rhs) }
            }
            impl Pow<u8> for $t {
                type Output = $t;
                #[inline] fn pow(self, rhs: u8) -> $t { <$t>::pow(self, u32::from(rhs)) }
            }
            impl Pow<u16> for $t {
                type Output = $t;
                #[inline] fn pow(self, rhs: u16) -> $t { <$t>::pow(self, u32::from(rhs)) }
            }
            impl Pow<usize> for $t {
                type Output = $t;
                #[inline] fn pow(self, rhs: usize) -> $t { super::pow(self, rhs) }
            }
        )*};
    }
    int_pow!(i8, i16, i32, i64, isize, u8, u16, u32, u64, usize);

    macro_rules! float_inv {
        ($($t:ty),*) => {$(
            impl Inv for $t {
                type Output = $t;
                #[inline] fn inv(self) -> $t { 1.0 / self }
            }
        )*};
    }
    float_inv!(f32, f64);

    pub use super::pow;
}

pub use traits::{Inv, One, Pow, Zero};

/// Raise `base` to the power `exp` by repeated squaring (num-traits algorithm, same operation order).
pub fn pow<T: Clone + One + core::ops::Mul<T, Output = T>>(mut base: T, mut exp: usize) -> T {
    if exp == 0 {
        return T::one();
    }
    while exp & 1 == 0 {
        base = base.clone() * base;
        exp >>= 1;
    }
    if exp == 1 {
        return base;
    }
    let mut acc = base.clone();
    while exp > 1 {
        exp >>= 1;
        base = base.clone() * base;
        if exp & 1 == 1 {
            acc = acc * base.clone();
        }
    }
    acc
}

pub mod complex {
    use super::traits::{Inv, One, Pow, Zero};
    use core::fmt;
    use core::iter::{Product, Sum};
    use core::ops::{Add, AddAssign, Div, DivAssign, Mul, MulAssign, Neg, Sub, SubAssign};

    /// A complex number in Cartesian form.
    #[derive(PartialEq, Eq, Copy, Clone, Hash, Debug, Default)]
    #[repr(C)]
    pub struct Complex<T> {
        pub re: T,
        pub im: T,
    }

    pub type Complex32 = Complex<f32>;
    pub type Complex64 = Complex<f64>;

    impl<T> Complex<T> {
        #[inline]
        pub const fn new(re: T, im: T) -> Self {
            Complex { re, im }
        }
    }

    impl Complex<f64> {
        #[inline]
        pub fn i() -> Self {
            Self::new(0.0, 1.0)
        }
        #[inline]
        pub fn norm_sqr(&self) -> f64 {
            self.re * self.re + self.im * self.im
        }
        #[inline]
        pub fn scale(&self, t: f64) -> Self {
            Self::new(self.re * t, self.im * t)
        }
        #[inline]
        pub fn unscale(&self, t: f64) -> Self {
            Self::new(self.re / t, self.im / t)
        }
        #[inline]
        pub fn conj(&self) -> Self {
            Self::new(self.re, -self.im)
        }
        #[inline]
        pub fn inv(&self) -> Self {
            let norm_sqr = self.norm_sqr();
            Self::new(self.re / norm_sqr, -self.im / norm_sqr)
        }
        #[inline]
        pub fn l1_norm(&self) -> f64 {
            self.re.abs() + self.im.abs()
        }
        #[inline]
        pub fn norm(&self) -> f64 {
            self.re.hypot(self.im)
        }
        #[inline]
        pub fn arg(&self) -> f64 {
            self.im.atan2(self.re)
        }
        #[inline]
        pub fn to_polar(&self) -> (f64, f64) {
            (self.norm(), self.arg())
        }
        #[inline]
        pub fn from_polar(r: f64, theta: f64) -> Self {
            Self::new(r * theta.cos(), r * theta.sin())
        }
        #[inline]
        pub fn cis(phase: f64) -> Self {
            Self::new(phase.cos(), phase.sin())
        }
        #[inline]
        pub fn exp(&self) -> Self {
            Self::from_polar(self.re.exp(), self.im)
        }
        #[inline]
        pub fn ln(&self) -> Self {
            let (r, theta) = self.to_polar();
            Self::new(r.ln(), theta)
        }
        #[inline]
        pub fn sqrt(&self) -> Self {
            if self.im == 0.0 {
                if self.re.is_sign_positive() {
                    Self::new(self.re.sqrt(), self.im)
                } else {
                    let re = 0.0;
                    let im = (-self.re).sqrt();
                    if self.im.is_sign_positive() {
                        Self::new(re, im)
                    } else {
                        Self::new(re, -im)
                    }
                }
            } else if self.re == 0.0 {
                let x = (self.im.abs() / 2.0).sqrt();
                if self.im.is_sign_positive() {
                    Self::new(x, x)
                } else {
                    Self::new(x, -x)
                }
            } else {
                let (r, theta) = self.to_polar();
                Self::from_polar(r.sqrt(), theta / 2.0)
            }
        }
        #[inline]
        pub fn powf(&self, exp: f64) -> Self {
            if exp == 0.0 {
                return Self::one();
            }
            let (r, theta) = self.to_polar();
            Self::from_polar(r.powf(exp), theta * exp)
        }
        #[inline]
        pub fn powc(&self, exp: Self) -> Self {
            if exp.is_zero() {
                return Self::one();
            }
            let (r, theta) = self.to_polar();
            Self::from_polar(
                r.powf(exp.re) * (-exp.im * theta).exp(),
                exp.re * theta + exp.im * r.ln(),
            )
        }
        #[inline]
        pub fn expf(&self, base: f64) -> Self {
            Self::from_polar(base.powf(self.re), self.im * base.ln())
        }
        #[inline]
        pub fn log(&self, base: f64) -> Self {
            let (r, theta) = self.to_polar();
            Self::new(r.log(base), theta / base.ln())
        }
        #[inline]
        pub fn powu(&self, exp: u32) -> Self {
            Pow::pow(self, exp)
        }
        #[inline]
        pub fn powi(&self, exp: i32) -> Self {
            Pow::pow(self, exp)
        }
        #[inline]
        pub fn sin(&self) -> Self {
            Self::new(self.re.sin() * self.im.cosh(), self.re.cos() * self.im.sinh())
        }
        #[inline]
        pub fn cos(&self) -> Self {
            Self::new(self.re.cos() * self.im.cosh(), -self.re.sin() * self.im.sinh())
        }
        #[inline]
        pub fn tan(&self) -> Self {
            let (two_re, two_im) = (self.re + self.re, self.im + self.im);
            Self::new(two_re.sin(), two_im.sinh()).unscale(two_re.cos() + two_im.cosh())
        }
        #[inline]
        pub fn sinh(&self) -> Self {
            Self::new(self.re.sinh() * self.im.cos(), self.re.cosh() * self.im.sin())
        }
        #[inline]
        pub fn cosh(&self) -> Self {
            Self::new(self.re.cosh() * self.im.cos(), self.re.sinh() * self.im.sin())
        }
        #[inline]
        pub fn tanh(&self) -> Self {
            let (two_re, two_im) = (self.re + self.re, self.im + self.im);
            Self::new(two_re.sinh(), two_im.sin()).unscale(two_re.cosh() + two_im.cos())
        }
        #[inline]
        pub fn finv(&self) -> Self {
            let norm = self.norm();
            self.conj() / norm / norm
        }
        #[inline]
        pub fn fdiv(&self, other: Self) -> Self {
            *self * other.finv()
        }
        #[inline]
        pub fn is_nan(self) -> bool {
            self.re.is_nan() || self.im.is_nan()
        }
        #[inline]
        pub fn is_infinite(self) -> bool {
            !self.is_nan() && (self.re.is_infinite() || self.im.is_infinite())
        }
        #[inline]
        pub fn is_finite(self) -> bool {
            self.re.is_finite() && self.im.is_finite()
        }
        #[inline]
        pub fn is_normal(self) -> bool {
            self.re.is_normal() && self.im.is_normal()
        }
    }

    impl From<f64> for Complex<f64> {
        #[inline]
        fn from(re: f64) -> Self {
            Self::new(re, 0.0)
        }
    }
    impl<'a> From<&'a f64> for Complex<f64> {
        #[inline]
        fn from(re: &f64) -> Self {
            Self::new(*re, 0.0)
        }
    }

    impl Zero for Complex<f64> {
        #[inline]
        fn zero() -> Self {
            Self::new(0.0, 0.0)
        }
        #[inline]
        fn is_zero(&self) -> bool {
            self.re == 0.0 && self.im == 0.0
        }
    }
    impl One for Complex<f64> {
        #[inline]
        fn one() -> Self {
            Self::new(1.0, 0.0)
        }
        #[inline]
        fn is_one(&self) -> bool {
            self.re == 1.0 && self.im == 0.0
        }
    }

    // ---- Complex (op) Complex ------------------------------------------------------------------
    impl Add for Complex<f64> {
        type Output = Self;
        #[inline]
        fn add(self, o: Self) -> Self {
            Self::new(self.re + o.re, self.im + o.im)
        }
    }
    impl Sub for Complex<f64> {
        type Output = Self;
        #[inline]
        fn sub(self, o: Self) -> Self {
            Self::new(self.re - o.re, self.im - o.im)
        }
    }
    impl Mul for Complex<f64> {
        type Output = Self;
        #[inline]
        fn mul(self, o: Self) -> Self {
            let re = self.re * o.re - self.im * o.im;
            let im = self.re * o.im + self.im * o.re;
            Self::new(re, im)
        }
    }
    impl Div for Complex<f64> {
        type Output = Self;
        #[inline]
        fn div(self, o: Self) -> Self {
            let norm_sqr = o.norm_sqr();
            let re = self.re * o.re + self.im * o.im;
            let im = self.im * o.re - self.re * o.im;
            Self::new(re / norm_sqr, im / norm_sqr)
        }
    }
    impl Neg for Complex<f64> {
        type Output = Self;
        #[inline]
        fn neg(self) -> Self {
            Self::new(-self.re, -self.im)
        }
    }
    impl<'a> Neg for &'a Complex<f64> {
        type Output = Complex<f64>;
        #[inline]
        fn neg(self) -> Complex<f64> {
            Complex::new(-self.re, -self.im)
        }
    }
    impl Inv for Complex<f64> {
        type Output = Self;
        #[inline]
        fn inv(self) -> Self {
            Complex::inv(&self)
        }
    }

    // ---- Complex (op) f64 and f64 (op) Complex ---------------------------------------------------
    impl Add<f64> for Complex<f64> {
        type Output = Self;
        #[inline]
        fn add(self, o: f64) -> Self {
            Self::new(self.re + o, self.im)
        }
    }
    impl Sub<f64> for Complex<f64> {
        type Output = Self;
        #[inline]
        fn sub(self, o: f64) -> Self {
            Self::new(self.re - o, self.im)
        }
    }
    impl Mul<f64> for Complex<f64> {
        type Output = Self;
        #[inline]
        fn mul(self, o: f64) -> Self {
            Self::new(self.re * o, self.im * o)
        }
    }
    impl Div<f64> for Complex<f64> {
        type Output = Self;
        #[inline]
        fn div(self, o: f64) -> Self {
            Self::new(self.re / o, self.im / o)
        }
    }
    impl Add<Complex<f64>> for f64 {
        type Output = Complex<f64>;
        #[inline]
        fn add(self, o: Complex<f64>) -> Complex<f64> {
            Complex::new(self + o.re, o.im)
        }
    }
    impl Sub<Complex<f64>> for f64 {
        type Output = Complex<f64>;
        #[inline]
        fn sub(self, o: Complex<f64>) -> Complex<f64> {
            Complex::new(self - o.re, 0.0 - o.im)
        }
    }
    impl Mul<Complex<f64>> for f64 {
        type Output = Complex<f64>;
        #[inline]
        fn mul(self, o: Complex<f64>) -> Complex<f64> {
            Complex::new(self * o.re, self * o.im)
        }
    }
    impl Div<Complex<f64>> for f64 {
        type Output = Complex<f64>;
        #[inline]
        fn div(self, o: Complex<f64>) -> Complex<f64> {
            // a / (c + i d) == [a * (c - i d)] / (c*c + d*d)
            let norm_sqr = o.norm_sqr();
            Complex::new(self * o.re / norm_sqr, 0.0 - self * o.im / norm_sqr)
        }
    }

    // ---- reference forwarding ------------------------------------------------------------------------
    macro_rules! forward_refs {
        ($($tr:ident, $m:ident;)*) => {$(
            impl<'a> $tr<&'a Complex<f64>> for Complex<f64> {
                type Output = Complex<f64>;
                #[inline] fn $m(self, o: &'a Complex<f64>) -> Complex<f64> { $tr::$m(self, *o) }
            }
            impl<'a> $tr<Complex<f64>> for &'a Complex<f64> {
                type Output = Complex<f64>;
                #[inline] fn $m(self, o: Complex<f64>) -> Complex<f64> { $tr::$m(*self, o) }
            }
            impl<'a, 'b> $tr<&'b Complex<f64>> for &'a Complex<f64> {
                type Output = Complex<f64>;
                #[inline] fn $m(self, o: &'b Complex<f64>) -> Complex<f64> { $tr::$m(*self, *o) }
            }
            impl<'a> $tr<&'a f64> for Complex<f64> {
                type Output = Complex<f64>;
                #[inline] fn $m(self, o: &'a f64) -> Complex<f64> { $tr::$m(self, *o) }
            }
            impl<'a> $tr<f64> for &'a Complex<f64> {
                type Output = Complex<f64>;
                #[inline] fn $m(self, o: f64) -> Complex<f64> { $tr::$m(*self, o) }
            }
            impl<'a, 'b> $tr<&'b f64> for &'a Complex<f64> {
                type Output = Complex<f64>;
                #[inline] fn $m(self, o: &'b f64) -> Complex<f64> { $tr::$m(*self, *o) }
            }
            impl<'a> $tr<&'a Complex<f64>> for f64 {
                type Output = Complex<f64>;
                #[inline] fn $m(self, o: &'a Complex<f64>) -> Complex<f64> { $tr::$m(self, *o) }
            }
            impl<'a> $tr<Complex<f64>> for &'a f64 {
                type Output = Complex<f64>;
                #[inline] fn $m(self, o: Complex<f64>) -> Complex<f64> { $tr::$m(*self, o) }
            }
            impl<'a, 'b> $tr<&'b Complex<f64>> for &'a f64 {
                type Output = Complex<f64>;
                #[inline] fn $m(self, o: &'b Complex<f64>) -> Complex<f64> { $tr::$m(*self, *o) }
            }
        )*};
    }
    forward_refs! { Add, add; Sub, sub; Mul, mul; Div, div; }

    // ---- assignment operators ------------------------------------------------------------------------
    macro_rules! assign_ops {
        ($($tr:ident, $m:ident, $op:ident, $opm:ident;)*) => {$(
            impl $tr<Complex<f64>> for Complex<f64> {
                #[inline] fn $m(&mut self, o: Complex<f64>) { *self = $op::$opm(*self, o); }
            }
            impl<'a> $tr<&'a Complex<f64>> for Complex<f64> {
                #[inline] fn $m(&mut self, o: &'a Complex<f64>) { *self = $op::$opm(*self, *o); }
            }
            impl $tr<f64> for Complex<f64> {
                #[inline] fn $m(&mut self, o: f64) { *self = $op::$opm(*self, o); }
            }
            impl<'a> $tr<&'a f64> for Complex<f64> {
                #[inline] fn $m(&mut self, o: &'a f64) { *self = $op::$opm(*self, *o); }
            }
        )*};
    }
    assign_ops! {
        AddAssign, add_assign, Add, add; SubAssign, sub_assign, Sub, sub;
        MulAssign, mul_assign, Mul, mul; DivAssign, div_assign, Div, div;
    }

    // ---- integer powers (num-complex: square and multiply; negative exponents through the inverse) ----
    macro_rules! pow_unsigned {
        ($($u:ty),*) => {$(
            impl<'a> Pow<$u> for &'a Complex<f64> {
                type Output = Complex<f64>;
                #[inline]
                fn pow(self, mut exp: $u) -> Complex<f64> {
                    if exp == 0 {
                        return Complex::one();
                    }
                    let mut base = *self;
                    while exp & 1 == 0 {
                        base = base * base;
                        exp >>= 1;
                    }
                    if exp == 1 {
                        return base;
                    }
                    let mut acc = base;
                    while exp > 1 {
                        exp >>= 1;
                        base = base * base;
                        if exp & 1 == 1 {
                            acc = acc * base;
                        }
                    }
                    acc
                }
            }
            impl Pow<$u> for Complex<f64> {
                type Output = Complex<f64>;
                #[inline] fn pow(self, exp: $u) -> Complex<f64> { Pow::pow(&self, exp) }
            }
            impl<'a, 'b> Pow<&'b $u> for &'a Complex<f64> {
                type Output = Complex<f64>;
                #[inline] fn pow(self, exp: &$u) -> Complex<f64> { Pow::pow(self, *exp) }
            }
        )*};
    }
    pow_unsigned!(u8, u16, u32, u64, usize);

    macro_rules! pow_signed {
        ($($i:ty => $u:ty),*) => {$(
            impl<'a> Pow<$i> for &'a Complex<f64> {
                type Output = Complex<f64>;
                #[inline]
                fn pow(self, exp: $i) -> Complex<f64> {
                    if exp < 0 {
                        Pow::pow(&self.inv(), exp.wrapping_neg() as $u)
                    } else {
                        Pow::pow(self, exp as $u)
                    }
                }
            }
            impl Pow<$i> for Complex<f64> {
                type Output = Complex<f64>;
                #[inline] fn pow(self, exp: $i) -> Complex<f64> { Pow::pow(&self, exp) }
            }
            impl<'a, 'b> Pow<&'b $i> for &'a Complex<f64> {
                type Output = Complex<f64>;
                #[inline] fn pow(self, exp: &$i) -> Complex<f64> { Pow::pow(self, *exp) }
            }
        )*};
    }
    pow_signed!(i8 => u8, i16 => u16, i32 => u32, i64 => u64, isize => usize);

    impl Pow<f64> for Complex<f64> {
        type Output = Complex<f64>;
        #[inline]
        fn pow(self, exp: f64) -> Complex<f64> {
            self.powf(exp)
        }
    }
    impl Pow<Complex<f64>> for Complex<f64> {
        type Output = Complex<f64>;
        #[inline]
        fn pow(self, exp: Complex<f64>) -> Complex<f64> {
            self.powc(exp)
        }
    }

    impl Sum for Complex<f64> {
        fn sum<I: Iterator<Item = Self>>(iter: I) -> Self {
            iter.fold(Self::zero(), |acc, c| acc + c)
        }
    }
    impl<'a> Sum<&'a Complex<f64>> for Complex<f64> {
        fn sum<I: Iterator<Item = &'a Complex<f64>>>(iter: I) -> Self {
            iter.fold(Self::zero(), |acc, c| acc + *c)
        }
    }
    impl Product for Complex<f64> {
        fn product<I: Iterator<Item = Self>>(iter: I) -> Self {
            iter.fold(Self::one(), |acc, c| acc * c)
        }
    }
    impl<'a> Product<&'a Complex<f64>> for Complex<f64> {
        fn product<I: Iterator<Item = &'a Complex<f64>>>(iter: I) -> Self {
            iter.fold(Self::one(), |acc, c| acc * *c)
        }
    }

    impl fmt::Display for Complex<f64> {
        fn fmt(&self, f: &mut fmt::Formatter<'_>) -> fmt::Result {
            if self.im < 0.0 || (self.im == 0.0 && self.im.is_sign_negative()) {
                write!(f, "{}-{}i", self.re, -self.im)
            } else {
                write!(f, "{}+{}i", self.re, self.im)
            }
        }
    }
}

pub use complex::{Complex, Complex32, Complex64};

//! C ABI around the public towers of `ekore` (the crate under test), for check C28.
//!
//! One entry point evaluates one tower at one Mellin moment.  The complete fixed-size array returned by the tower is
//! written, flattened in row-major order, as interleaved (re, im) pairs.  Panics inside `ekore` are caught and
//! reported through the return value (a panic must not unwind across the C boundary).
//!
//! The manifest of this crate is generated at check time (see `vf/refs/c28_rust.py`): its `ekore` dependency points at
//! `$VERIF_REPO/crates/ekore` and `num` is patched to `/verif/rust/num_shim`.

#![allow(non_snake_case)]

use ekore::anomalous_dimensions::polarized::spacelike as pol;
use ekore::anomalous_dimensions::unpolarized::spacelike as unp;
use ekore::constants::{MAX_ORDER_QCD, MAX_ORDER_QED};
use ekore::harmonics::cache::Cache;
use ekore::operator_matrix_elements::unpolarized::spacelike as ome;
use num::complex::Complex;
use std::panic::{catch_unwind, AssertUnwindSafe};

pub const UNPOL_NS_QCD: u32 = 0;
pub const UNPOL_SINGLET_QCD: u32 = 1;
pub const UNPOL_NS_QED: u32 = 2;
pub const UNPOL_SINGLET_QED: u32 = 3;
pub const UNPOL_VALENCE_QED: u32 = 4;
pub const POL_NS_QCD: u32 = 5;
pub const POL_SINGLET_QCD: u32 = 6;
pub const OME_SINGLET: u32 = 7;
pub const OME_NON_SINGLET: u32 = 8;

/// Appends values to the output buffer.
struct Sink<'a> {
    out: &'a mut [f64],
    n: usize,
    overflow: bool,
}

impl Sink<'_> {
    fn put(&mut self, z: Complex<f64>) {
        if 2 * self.n + 1 < self.out.len() {
            self.out[2 * self.n] = z.re;
            self.out[2 * self.n + 1] = z.im;
            self.n += 1;
        } else {
            self.overflow = true;
        }
    }
    fn put1(&mut self, a: &[Complex<f64>]) {
        for z in a {
            self.put(*z);
        }
    }
    fn put2<const D: usize>(&mut self, a: &[[Complex<f64>; D]; D]) {
        for r in a {
            self.put1(r);
        }
    }
}

/// ABI version, bumped whenever the layout below changes (checked by the Python side).
#[unsafe(no_mangle)]
pub extern "C" fn vf_abi_version() -> u32 {
    3
}

/// `MAX_ORDER_QCD` and `MAX_ORDER_QED` of the crate under test.
#[unsafe(no_mangle)]
pub extern "C" fn vf_max_order(which: u32) -> usize {
    if which == 0 { MAX_ORDER_QCD } else { MAX_ORDER_QED }
}

/// Evaluate one tower.
///
/// `var` points at the 7 variation indices `(gg, gq, qg, qq, nsp, nsm, nsv)`; each tower receives the slice the
/// production binding (`crates/eko/src/lib.rs`) hands to it.
///
/// Returns the number of complex values written (>= 0), -1 for an unknown tower id, -2 if the output buffer is too
/// small, -3 if the `ekore` code panicked (the panic message is printed to stderr by the default hook).
///
/// # Safety
/// `var` must point at 7 readable bytes, `out` at `out_len` writable doubles.
#[unsafe(no_mangle)]
pub unsafe extern "C" fn vf_tower(
    which: u32,
    order_qcd: usize,
    order_qed: usize,
    mode: u16,
    n_re: f64,
    n_im: f64,
    nf: u8,
    var: *const u8,
    L: f64,
    out: *mut f64,
    out_len: usize,
) -> i64 {
    let v7: [u8; 7] = unsafe { std::slice::from_raw_parts(var, 7) }.try_into().unwrap();
    let out = unsafe { std::slice::from_raw_parts_mut(out, out_len) };
    let v_s: [u8; 4] = v7[0..4].try_into().unwrap();
    let v_ns: [u8; 3] = v7[4..7].try_into().unwrap();
    let n = Complex::new(n_re, n_im);

    let res = catch_unwind(AssertUnwindSafe(|| {
        let mut c = Cache::new(n);
        let mut s = Sink { out, n: 0, overflow: false };
        match which {
            UNPOL_NS_QCD => s.put1(&unp::gamma_ns_qcd(order_qcd, mode, &mut c, nf, v_ns)),
            UNPOL_SINGLET_QCD => {
                for m in unp::gamma_singlet_qcd(order_qcd, &mut c, nf, v_s).iter() {
                    s.put2(m);
                }
            }
            UNPOL_NS_QED => {
                for r in unp::gamma_ns_qed(order_qcd, order_qed, mode, &mut c, nf, v_ns).iter() {
                    s.put1(r);
                }
            }
            UNPOL_SINGLET_QED => {
                for r in unp::gamma_singlet_qed(order_qcd, order_qed, &mut c, nf, v7).iter() {
                    for m in r.iter() {
                        s.put2(m);
                    }
                }
            }
            UNPOL_VALENCE_QED => {
                for r in unp::gamma_valence_qed(order_qcd, order_qed, &mut c, nf, v_ns).iter() {
                    for m in r.iter() {
                        s.put2(m);
                    }
                }
            }
            POL_NS_QCD => s.put1(&pol::gamma_ns_qcd(order_qcd, mode, &mut c, nf, v_ns)),
            POL_SINGLET_QCD => {
                for m in pol::gamma_singlet_qcd(order_qcd, &mut c, nf, v_s).iter() {
                    s.put2(m);
                }
            }
            OME_SINGLET => {
                for m in ome::A_singlet(order_qcd, &mut c, nf, L).iter() {
                    s.put2(m);
                }
            }
            OME_NON_SINGLET => {
                for m in ome::A_non_singlet(order_qcd, &mut c, nf, L).iter() {
                    s.put2(m);
                }
            }
            _ => return -1i64,
        }
        if s.overflow { -2 } else { s.n as i64 }
    }));
    match res {
        Ok(k) => k,
        Err(_) => -3,
    }
}

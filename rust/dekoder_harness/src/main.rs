//! Dump binary of check C54: drives the `dekoder` crate compiled from the tree under test.
//!
//! ```text
//! dekoder_dump read <archive.tar> <workdir> <outdir> [<scale-bits-hex>:<nf>]...
//! ```
//! extracts `<archive.tar>` into `<workdir>` with `EKO::extract`, prints one JSON object per line:
//! the outcome of opening, every point of `available_operators()` (scale as the 16-hex-digit bit pattern of the f64),
//! and for every requested point the answers of `has_operator` / `load_operator`, the shapes and the names of the files
//! in `<outdir>` that received the raw little-endian row-major bytes of the operator and error tensors; finally the
//! constructs the stand-in decoders met but do not support (a non-empty list makes the run undecidable).
//!
//! Self-test entry points for the stand-in decoders (compared with Python's lz4 / numpy / PyYAML by
//! `python -m vf.refs.c54_rust selftest`):
//!
//! ```text
//! dekoder_dump lz4d <in> <out>            decompress an LZ4 frame stream
//! dekoder_dump npz <in> <member> <out>    read one member of an .npz as Array4<f64>: prints the shape, writes raw bytes
//! dekoder_dump yaml <in>                  print the typed document tree
//! dekoder_dump xxh32 <in>                 print the xxHash32 (seed 0) of a file
//! ```

use std::io::{Read, Write};
use std::path::PathBuf;

use dekoder::eko::{EKO, EvolutionPoint};
use ndarray::Array4;
use yaml_rust2::{Yaml, YamlLoader};

const ABI: u32 = 1;

fn jstr(s: &str) -> String {
    let mut out = String::from("\"");
    for c in s.chars() {
        match c {
            '"' => out.push_str("\\\""),
            '\\' => out.push_str("\\\\"),
            '\n' => out.push_str("\\n"),
            '\r' => out.push_str("\\r"),
            '\t' => out.push_str("\\t"),
            c if (c as u32) < 0x20 => out.push_str(&format!("\\u{:04x}", c as u32)),
            c => out.push(c),
        }
    }
    out.push('"');
    out
}

fn jlist(v: &[String]) -> String {
    format!("[{}]", v.iter().map(|s| jstr(s)).collect::<Vec<_>>().join(","))
}

fn dump_tensor(a: &Array4<f64>, path: &PathBuf) -> std::io::Result<String> {
    let mut bytes = Vec::with_capacity(a.len() * 8);
    for v in a.iter() {
        bytes.extend_from_slice(&v.to_le_bytes());
    }
    std::fs::write(path, &bytes)?;
    let d = a.dim();
    Ok(format!("[{},{},{},{}]", d.0, d.1, d.2, d.3))
}

fn notes_line() -> String {
    format!(
        "{{\"ev\":\"notes\",\"yaml\":{},\"lz4\":{},\"npz\":{}}}",
        jlist(&yaml_rust2::shim::notes()),
        jlist(&lz4_flex::shim::notes()),
        jlist(&ndarray_npy::shim::notes())
    )
}

fn cmd_read(args: &[String]) -> i32 {
    if args.len() < 3 {
        eprintln!("usage: read <archive.tar> <workdir> <outdir> [<scale-bits-hex>:<nf>]...");
        return 2;
    }
    let src = PathBuf::from(&args[0]);
    let work = PathBuf::from(&args[1]);
    let outdir = PathBuf::from(&args[2]);
    let mut requests = Vec::new();
    for r in &args[3..] {
        let (bits, nf) = match r.split_once(':') {
            Some(x) => x,
            None => {
                eprintln!("bad request {r}");
                return 2;
            }
        };
        let bits = match u64::from_str_radix(bits, 16) {
            Ok(b) => b,
            Err(_) => {
                eprintln!("bad request {r}");
                return 2;
            }
        };
        let nf: i64 = match nf.parse() {
            Ok(n) => n,
            Err(_) => {
                eprintln!("bad request {r}");
                return 2;
            }
        };
        requests.push((f64::from_bits(bits), nf));
    }
    println!("{{\"ev\":\"abi\",\"abi\":{ABI}}}");
    let eko = match EKO::extract(src, work) {
        Ok(e) => {
            println!("{{\"ev\":\"open\",\"ok\":true}}");
            e
        }
        Err(e) => {
            println!(
                "{{\"ev\":\"open\",\"ok\":false,\"error\":{},\"display\":{}}}",
                jstr(&format!("{e:?}")),
                jstr(&format!("{e}"))
            );
            println!("{}", notes_line());
            return 0;
        }
    };
    for ep in eko.available_operators() {
        println!(
            "{{\"ev\":\"point\",\"scale_bits\":\"{:016x}\",\"nf\":{}}}",
            ep.scale.to_bits(),
            ep.nf
        );
    }
    for (i, (scale, nf)) in requests.iter().enumerate() {
        let ep = EvolutionPoint { scale: *scale, nf: *nf };
        let has = eko.has_operator(&ep);
        match eko.load_operator(&ep) {
            Err(e) => println!(
                "{{\"ev\":\"load\",\"req\":{i},\"has\":{has},\"ok\":false,\"error\":{},\"display\":{}}}",
                jstr(&format!("{e:?}")),
                jstr(&format!("{e}"))
            ),
            Ok(o) => {
                let mut parts = Vec::new();
                for (label, t) in [("op", &o.op), ("err", &o.err)] {
                    match t {
                        None => parts.push(format!("\"{label}_shape\":null,\"{label}_file\":null")),
                        Some(a) => {
                            let f = outdir.join(format!("{label}_{i}.bin"));
                            match dump_tensor(a, &f) {
                                Ok(shape) => parts.push(format!(
                                    "\"{label}_shape\":{shape},\"{label}_file\":{}",
                                    jstr(&f.to_string_lossy())
                                )),
                                Err(e) => {
                                    eprintln!("cannot write {}: {e}", f.display());
                                    return 2;
                                }
                            }
                        }
                    }
                }
                println!("{{\"ev\":\"load\",\"req\":{i},\"has\":{has},\"ok\":true,{}}}", parts.join(","));
            }
        }
    }
    println!("{}", notes_line());
    0
}

fn cmd_lz4d(args: &[String]) -> i32 {
    let f = match std::fs::File::open(&args[0]) {
        Ok(f) => f,
        Err(e) => {
            eprintln!("{e}");
            return 2;
        }
    };
    let mut d = lz4_flex::frame::FrameDecoder::new(f);
    let mut out = Vec::new();
    match d.read_to_end(&mut out) {
        Ok(_) => {
            std::fs::write(&args[1], &out).unwrap();
            println!("ok {}", out.len());
            0
        }
        Err(e) => {
            println!("error {e}");
            3
        }
    }
}

fn cmd_npz(args: &[String]) -> i32 {
    let bytes = std::fs::read(&args[0]).unwrap();
    let mut r = match ndarray_npy::NpzReader::new(std::io::Cursor::new(bytes)) {
        Ok(r) => r,
        Err(e) => {
            println!("error {e}");
            return 3;
        }
    };
    let a: Array4<f64> = match r.by_name(&args[1]) {
        Ok(a) => a,
        Err(e) => {
            println!("error {e}");
            return 3;
        }
    };
    let shape = dump_tensor(&a, &PathBuf::from(&args[2])).unwrap();
    println!("ok {shape}");
    0
}

fn show(y: &Yaml, out: &mut String) {
    match y {
        Yaml::Real(s) => out.push_str(&format!(
            "{{\"t\":\"real\",\"v\":{},\"bits\":{}}}",
            jstr(s),
            match y.as_f64() {
                Some(f) => format!("\"{:016x}\"", f.to_bits()),
                None => "null".to_owned(),
            }
        )),
        Yaml::Integer(i) => out.push_str(&format!("{{\"t\":\"int\",\"v\":\"{i}\"}}")),
        Yaml::String(s) => out.push_str(&format!("{{\"t\":\"str\",\"v\":{}}}", jstr(s))),
        Yaml::Boolean(b) => out.push_str(&format!("{{\"t\":\"bool\",\"v\":{b}}}")),
        Yaml::Null => out.push_str("{\"t\":\"null\"}"),
        Yaml::BadValue => out.push_str("{\"t\":\"bad\"}"),
        Yaml::Alias(_) => out.push_str("{\"t\":\"alias\"}"),
        Yaml::Array(v) => {
            out.push_str("{\"t\":\"seq\",\"v\":[");
            for (i, it) in v.iter().enumerate() {
                if i > 0 {
                    out.push(',');
                }
                show(it, out);
            }
            out.push_str("]}");
        }
        Yaml::Hash(h) => {
            out.push_str("{\"t\":\"map\",\"v\":[");
            for (i, (k, v)) in h.iter().enumerate() {
                if i > 0 {
                    out.push(',');
                }
                out.push('[');
                show(k, out);
                out.push(',');
                show(v, out);
                out.push(']');
            }
            out.push_str("]}");
        }
    }
}

fn cmd_yaml(args: &[String]) -> i32 {
    let text = std::fs::read_to_string(&args[0]).unwrap();
    match YamlLoader::load_from_str(&text) {
        Ok(docs) => {
            let mut out = String::from("{\"ok\":true,\"docs\":[");
            for (i, d) in docs.iter().enumerate() {
                if i > 0 {
                    out.push(',');
                }
                show(d, &mut out);
            }
            out.push_str(&format!("],\"notes\":{}}}", jlist(&yaml_rust2::shim::notes())));
            println!("{out}");
            0
        }
        Err(e) => {
            println!(
                "{{\"ok\":false,\"error\":{},\"notes\":{}}}",
                jstr(&e.to_string()),
                jlist(&yaml_rust2::shim::notes())
            );
            0
        }
    }
}

fn cmd_xxh32(args: &[String]) -> i32 {
    let bytes = std::fs::read(&args[0]).unwrap();
    println!("{:08x}", lz4_flex::xxh32(&bytes, 0));
    0
}

fn main() {
    let args: Vec<String> = std::env::args().skip(1).collect();
    let code = match args.first().map(|s| s.as_str()) {
        Some("read") => cmd_read(&args[1..]),
        Some("lz4d") if args.len() == 3 => cmd_lz4d(&args[1..]),
        Some("npz") if args.len() == 4 => cmd_npz(&args[1..]),
        Some("yaml") if args.len() == 2 => cmd_yaml(&args[1..]),
        Some("xxh32") if args.len() == 2 => cmd_xxh32(&args[1..]),
        Some("abi") => {
            println!("{ABI}");
            0
        }
        _ => {
            eprintln!("usage: dekoder_dump read|lz4d|npz|yaml|xxh32|abi ...");
            2
        }
    };
    std::io::stdout().flush().ok();
    std::process::exit(code);
}

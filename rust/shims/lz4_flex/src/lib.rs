//! Self-contained subset of `lz4_flex`, sufficient for `crates/dekoder`: `frame::FrameDecoder`.
//!
//! Written from the LZ4 Frame Format Description (v1.6.x) and the LZ4 Block Format Description:
//! magic number, frame descriptor (FLG, BD, optional content size and dictionary id, header checksum), data blocks
//! (compressed or stored, linked or independent, optional block checksums), end mark, optional content checksum.
//! All checksums (xxHash32) and the declared content size are verified, as the real crate does with its default
//! features.  Concatenated frames are decoded one after the other.
//!
//! Features of the format this stand-in does not implement (dictionaries, skippable and legacy frames) do not produce a
//! silent result: they are recorded in [`shim::notes`] so that the harness can report "not decidable" instead of a
//! verdict.  Part of the trusted base of check C54.

#![allow(clippy::all)]

pub mod shim {
    use std::sync::Mutex;

    static NOTES: Mutex<Vec<String>> = Mutex::new(Vec::new());

    /// Record a feature the stand-in does not support.
    pub fn note(s: String) {
        NOTES.lock().unwrap().push(s);
    }

    /// Unsupported features met so far in this process.
    pub fn notes() -> Vec<String> {
        NOTES.lock().unwrap().clone()
    }
}

/// xxHash32 (needed for the frame checksums).
pub fn xxh32(input: &[u8], seed: u32) -> u32 {
    const P1: u32 = 2654435761;
    const P2: u32 = 2246822519;
    const P3: u32 = 3266489917;
    const P4: u32 = 668265263;
    const P5: u32 = 374761393;
    fn rd(b: &[u8]) -> u32 {
        u32::from_le_bytes([b[0], b[1], b[2], b[3]])
    }
    fn round(acc: u32, x: u32) -> u32 {
        acc.wrapping_add(x.wrapping_mul(P2)).rotate_left(13).wrapping_mul(P1)
    }
    let len = input.len();
    let mut p = 0usize;
    let mut h: u32;
    if len >= 16 {
        let mut v1 = seed.wrapping_add(P1).wrapping_add(P2);
        let mut v2 = seed.wrapping_add(P2);
        let mut v3 = seed;
        let mut v4 = seed.wrapping_sub(P1);
        while p + 16 <= len {
            v1 = round(v1, rd(&input[p..]));
            v2 = round(v2, rd(&input[p + 4..]));
            v3 = round(v3, rd(&input[p + 8..]));
            v4 = round(v4, rd(&input[p + 12..]));
            p += 16;
        }
        h = v1
            .rotate_left(1)
            .wrapping_add(v2.rotate_left(7))
            .wrapping_add(v3.rotate_left(12))
            .wrapping_add(v4.rotate_left(18));
    } else {
        h = seed.wrapping_add(P5);
    }
    h = h.wrapping_add(len as u32);
    while p + 4 <= len {
        h = h.wrapping_add(rd(&input[p..]).wrapping_mul(P3)).rotate_left(17).wrapping_mul(P4);
        p += 4;
    }
    while p < len {
        h = h.wrapping_add((input[p] as u32).wrapping_mul(P5)).rotate_left(11).wrapping_mul(P1);
        p += 1;
    }
    h ^= h >> 15;
    h = h.wrapping_mul(P2);
    h ^= h >> 13;
    h = h.wrapping_mul(P3);
    h ^= h >> 16;
    h
}

pub mod frame {
    use std::fmt;
    use std::io::{self, Read};

    const MAGIC: u32 = 0x184D_2204;
    const MAGIC_LEGACY: u32 = 0x184C_2102;
    const WINDOW: usize = 64 * 1024;

    /// Errors of the frame decoder (reported through `io::Error`, kind `InvalidData`/`Other`, as the real crate does).
    #[derive(Debug, Clone, PartialEq, Eq)]
    pub enum Error {
        WrongMagicNumber,
        ReservedBitsSet,
        UnsupportedVersion(u8),
        UnsupportedBlocksize(u8),
        HeaderChecksumError,
        BlockChecksumError,
        ContentChecksumError,
        ContentLengthError { expected: u64, actual: u64 },
        BlockTooBig,
        DecompressionError(String),
        DictionaryNotSupported,
        SkippableFrame(u32),
        LegacyFrame,
        UnexpectedEof,
    }

    impl fmt::Display for Error {
        fn fmt(&self, f: &mut fmt::Formatter<'_>) -> fmt::Result {
            write!(f, "{:?}", self)
        }
    }

    impl std::error::Error for Error {}

    impl From<Error> for io::Error {
        fn from(e: Error) -> Self {
            let kind = match e {
                Error::UnexpectedEof => io::ErrorKind::UnexpectedEof,
                _ => io::ErrorKind::InvalidData,
            };
            io::Error::new(kind, e)
        }
    }

    /// Decode one LZ4 block appending to `out`; matches may reach back to `out[floor..]` only.
    fn decode_block(src: &[u8], out: &mut Vec<u8>, floor: usize, max_out: usize) -> Result<(), Error> {
        let err = |s: &str| Error::DecompressionError(s.to_owned());
        let start_len = out.len();
        let mut p = 0usize;
        if src.is_empty() {
            return Err(err("empty compressed block"));
        }
        loop {
            if p >= src.len() {
                return Err(err("block ends where a token is expected"));
            }
            let token = src[p];
            p += 1;
            // literals
            let mut lit = (token >> 4) as usize;
            if lit == 15 {
                loop {
                    let b = *src.get(p).ok_or_else(|| err("truncated literal length"))?;
                    p += 1;
                    lit += b as usize;
                    if b != 255 {
                        break;
                    }
                }
            }
            if p + lit > src.len() {
                return Err(err("literals run past the end of the block"));
            }
            if out.len() - start_len + lit > max_out {
                return Err(err("block decodes to more than the maximal block size"));
            }
            out.extend_from_slice(&src[p..p + lit]);
            p += lit;
            if p == src.len() {
                // last sequence: literals only
                return Ok(());
            }
            // match
            if p + 2 > src.len() {
                return Err(err("truncated match offset"));
            }
            let offset = u16::from_le_bytes([src[p], src[p + 1]]) as usize;
            p += 2;
            if offset == 0 {
                return Err(err("zero match offset"));
            }
            let mut mlen = (token & 0x0F) as usize;
            if mlen == 15 {
                loop {
                    let b = *src.get(p).ok_or_else(|| err("truncated match length"))?;
                    p += 1;
                    mlen += b as usize;
                    if b != 255 {
                        break;
                    }
                }
            }
            mlen += 4;
            if offset > out.len() - floor {
                return Err(err("match offset reaches before the start of the window"));
            }
            if out.len() - start_len + mlen > max_out {
                return Err(err("block decodes to more than the maximal block size"));
            }
            let from = out.len() - offset;
            for i in 0..mlen {
                let b = out[from + i];
                out.push(b);
            }
        }
    }

    fn take<'a>(buf: &'a [u8], p: &mut usize, n: usize) -> Result<&'a [u8], Error> {
        if *p + n > buf.len() {
            return Err(Error::UnexpectedEof);
        }
        let s = &buf[*p..*p + n];
        *p += n;
        Ok(s)
    }

    fn take_u32(buf: &[u8], p: &mut usize) -> Result<u32, Error> {
        let s = take(buf, p, 4)?;
        Ok(u32::from_le_bytes([s[0], s[1], s[2], s[3]]))
    }

    /// Decode a whole stream of concatenated frames.
    pub fn decode_all(buf: &[u8]) -> Result<Vec<u8>, Error> {
        let mut result = Vec::new();
        let mut p = 0usize;
        while p < buf.len() {
            let magic = take_u32(buf, &mut p)?;
            if magic != MAGIC {
                if (0x184D_2A50..=0x184D_2A5F).contains(&magic) {
                    crate::shim::note(format!("skippable frame {magic:#x}"));
                    return Err(Error::SkippableFrame(magic));
                }
                if magic == MAGIC_LEGACY {
                    crate::shim::note("legacy frame".to_owned());
                    return Err(Error::LegacyFrame);
                }
                return Err(Error::WrongMagicNumber);
            }
            let desc_start = p;
            let flg = take(buf, &mut p, 1)?[0];
            let bd = take(buf, &mut p, 1)?[0];
            let version = flg >> 6;
            if version != 1 {
                return Err(Error::UnsupportedVersion(version));
            }
            if flg & 0x02 != 0 || bd & 0x8F != 0 {
                return Err(Error::ReservedBitsSet);
            }
            let independent = flg & 0x20 != 0;
            let block_checksums = flg & 0x10 != 0;
            let has_size = flg & 0x08 != 0;
            let content_checksum = flg & 0x04 != 0;
            let has_dict = flg & 0x01 != 0;
            let bs_code = (bd >> 4) & 0x07;
            let max_block = match bs_code {
                4 => 64 * 1024,
                5 => 256 * 1024,
                6 => 1024 * 1024,
                7 => 4 * 1024 * 1024,
                other => return Err(Error::UnsupportedBlocksize(other)),
            };
            let mut content_size = None;
            if has_size {
                let s = take(buf, &mut p, 8)?;
                content_size = Some(u64::from_le_bytes([s[0], s[1], s[2], s[3], s[4], s[5], s[6], s[7]]));
            }
            if has_dict {
                let _ = take_u32(buf, &mut p)?;
            }
            let desc_end = p;
            let hc = take(buf, &mut p, 1)?[0];
            if ((crate::xxh32(&buf[desc_start..desc_end], 0) >> 8) & 0xFF) as u8 != hc {
                return Err(Error::HeaderChecksumError);
            }
            if has_dict {
                crate::shim::note("frame with dictionary id".to_owned());
                return Err(Error::DictionaryNotSupported);
            }
            // blocks
            let mut out: Vec<u8> = Vec::new();
            loop {
                let word = take_u32(buf, &mut p)?;
                if word == 0 {
                    break;
                }
                let stored = word & 0x8000_0000 != 0;
                let size = (word & 0x7FFF_FFFF) as usize;
                if size > max_block {
                    return Err(Error::BlockTooBig);
                }
                let data = take(buf, &mut p, size)?;
                if block_checksums {
                    let c = take_u32(buf, &mut p)?;
                    if crate::xxh32(data, 0) != c {
                        return Err(Error::BlockChecksumError);
                    }
                }
                if stored {
                    out.extend_from_slice(data);
                } else {
                    let floor = if independent { out.len() } else { out.len().saturating_sub(WINDOW) };
                    decode_block(data, &mut out, floor, max_block)?;
                }
            }
            if content_checksum {
                let c = take_u32(buf, &mut p)?;
                if crate::xxh32(&out, 0) != c {
                    return Err(Error::ContentChecksumError);
                }
            }
            if let Some(expected) = content_size {
                if expected != out.len() as u64 {
                    return Err(Error::ContentLengthError {
                        expected,
                        actual: out.len() as u64,
                    });
                }
            }
            result.extend_from_slice(&out);
        }
        Ok(result)
    }

    /// `io::Read` adaptor that decompresses an LZ4 frame stream.
    pub struct FrameDecoder<R: Read> {
        inner: R,
        decoded: Option<Vec<u8>>,
        pos: usize,
    }

    impl<R: Read> FrameDecoder<R> {
        /// Wrap a reader of compressed data.
        pub fn new(inner: R) -> Self {
            Self {
                inner,
                decoded: None,
                pos: 0,
            }
        }

        /// The wrapped reader.
        pub fn get_ref(&self) -> &R {
            &self.inner
        }

        /// The wrapped reader, mutably.
        pub fn get_mut(&mut self) -> &mut R {
            &mut self.inner
        }

        /// Unwrap.
        pub fn into_inner(self) -> R {
            self.inner
        }
    }

    impl<R: Read> Read for FrameDecoder<R> {
        fn read(&mut self, buf: &mut [u8]) -> io::Result<usize> {
            if self.decoded.is_none() {
                let mut raw = Vec::new();
                self.inner.read_to_end(&mut raw)?;
                self.decoded = Some(decode_all(&raw)?);
            }
            let d = self.decoded.as_ref().unwrap();
            let n = buf.len().min(d.len() - self.pos);
            buf[..n].copy_from_slice(&d[self.pos..self.pos + n]);
            self.pos += n;
            Ok(n)
        }
    }
}

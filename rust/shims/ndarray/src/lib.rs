//! Self-contained subset of `ndarray`, sufficient for `crates/dekoder`: the owned rank-4 array.
//!
//! The real crate keeps shape + strides + a flat buffer; this stand-in always stores the elements in logical
//! row-major ("C") order, whatever the memory order of the source, so `iter()` / indexing visit the same logical
//! elements as the real crate does.  Part of the trusted base of check C54.

#![allow(clippy::all)]

use std::fmt;
use std::ops::Index;

/// Error of `from_shape_vec` (shape does not match the number of elements).
#[derive(Debug, Clone, PartialEq, Eq)]
pub struct ShapeError {
    msg: String,
}

impl fmt::Display for ShapeError {
    fn fmt(&self, f: &mut fmt::Formatter<'_>) -> fmt::Result {
        write!(f, "ShapeError: {}", self.msg)
    }
}

impl std::error::Error for ShapeError {}

/// Owned rank-4 array, elements kept in logical row-major order.
#[derive(Clone, PartialEq)]
pub struct Array4<A> {
    shape: [usize; 4],
    data: Vec<A>,
}

impl<A> Array4<A> {
    /// Build from a row-major vector.
    pub fn from_shape_vec(shape: (usize, usize, usize, usize), v: Vec<A>) -> Result<Self, ShapeError> {
        let shape = [shape.0, shape.1, shape.2, shape.3];
        let mut n: usize = 1;
        for s in shape {
            n = n.checked_mul(s).ok_or(ShapeError {
                msg: "overflow in the number of elements".to_owned(),
            })?;
        }
        if n != v.len() {
            return Err(ShapeError {
                msg: format!("shape {:?} needs {} elements, got {}", shape, n, v.len()),
            });
        }
        Ok(Self { shape, data: v })
    }

    /// The shape as a tuple (what `ArrayBase<_, Ix4>::dim` returns).
    pub fn dim(&self) -> (usize, usize, usize, usize) {
        (self.shape[0], self.shape[1], self.shape[2], self.shape[3])
    }

    /// The shape as a slice.
    pub fn shape(&self) -> &[usize] {
        &self.shape
    }

    /// Number of axes.
    pub fn ndim(&self) -> usize {
        4
    }

    /// Total number of elements.
    pub fn len(&self) -> usize {
        self.data.len()
    }

    /// Whether the array has no elements.
    pub fn is_empty(&self) -> bool {
        self.data.is_empty()
    }

    /// Elements in logical (row-major) order.
    pub fn iter(&self) -> std::slice::Iter<'_, A> {
        self.data.iter()
    }

    /// Contiguous row-major view (always available here).
    pub fn as_slice(&self) -> Option<&[A]> {
        Some(&self.data)
    }

    /// Consume into the row-major vector.
    pub fn into_raw_vec(self) -> Vec<A> {
        self.data
    }
}

impl<A> Index<[usize; 4]> for Array4<A> {
    type Output = A;
    fn index(&self, i: [usize; 4]) -> &A {
        for ax in 0..4 {
            assert!(i[ax] < self.shape[ax], "ndarray: index {:?} is out of bounds for array of shape {:?}", i, self.shape);
        }
        &self.data[((i[0] * self.shape[1] + i[1]) * self.shape[2] + i[2]) * self.shape[3] + i[3]]
    }
}

impl<A> Index<(usize, usize, usize, usize)> for Array4<A> {
    type Output = A;
    fn index(&self, i: (usize, usize, usize, usize)) -> &A {
        &self[[i.0, i.1, i.2, i.3]]
    }
}

impl<A: fmt::Debug> fmt::Debug for Array4<A> {
    fn fmt(&self, f: &mut fmt::Formatter<'_>) -> fmt::Result {
        write!(f, "Array4(shape={:?}, {} elements)", self.shape, self.data.len())
    }
}

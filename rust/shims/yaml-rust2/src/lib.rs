//! Self-contained subset of `yaml-rust2`, sufficient for `crates/dekoder`.
//!
//! Data model and scalar typing follow yaml-rust2 0.8 (`Yaml::from_str`, `YamlLoader::on_event`):
//!
//! * a scalar that is not *plain* (quoted, literal, folded) is a `Yaml::String`;
//! * a plain scalar tagged `!!bool` / `!!int` / `!!float` / `!!null` is parsed as such (`BadValue` when it does not
//!   parse), any other tag gives a `Yaml::String`; tags on collections are ignored;
//! * an untagged plain scalar: `0x..` / `0o..` / `+<digits>` integers, `~` / `null` -> `Null`, `true` / `false`
//!   -> `Boolean`, anything `str::parse::<i64>` accepts -> `Integer`, anything `parse_f64` accepts (`.inf`, `.nan`
//!   variants and whatever `str::parse::<f64>` accepts) -> `Real` (kept as text), otherwise `String`;
//! * `as_f64` only answers for `Real`, `as_i64` only for `Integer`; indexing a non-mapping or a missing key gives
//!   `BadValue`; a repeated mapping key keeps the last value.
//!
//! Syntax covered: documents (`---`, `...`), comments, block mappings and sequences (including PyYAML's unindented
//! sequences under a key), single-line plain / single-quoted / double-quoted scalars, literal and folded block scalars,
//! single-line flow sequences and mappings, tags and anchors.  Anything else (aliases, directives, complex keys,
//! multi-line flow or plain scalars, ...) is *not* given a silent meaning: the loader returns an error and records the
//! construct in [`shim::notes`], so that the harness reports "not decidable" instead of a verdict.
//! Part of the trusted base of check C54.

#![allow(clippy::all)]

use std::fmt;
use std::ops::Index;

pub mod shim {
    use std::sync::Mutex;

    static NOTES: Mutex<Vec<String>> = Mutex::new(Vec::new());

    /// Record a construct the stand-in does not support.
    pub fn note(s: String) {
        NOTES.lock().unwrap().push(s);
    }

    /// Unsupported constructs met so far in this process.
    pub fn notes() -> Vec<String> {
        NOTES.lock().unwrap().clone()
    }
}

/// Position + message of a syntax error.
#[derive(Debug, Clone, PartialEq, Eq)]
pub struct ScanError {
    line: usize,
    info: String,
}

impl ScanError {
    fn new(line: usize, info: &str) -> Self {
        Self {
            line,
            info: info.to_owned(),
        }
    }
    /// Message.
    pub fn info(&self) -> &str {
        &self.info
    }
}

impl fmt::Display for ScanError {
    fn fmt(&self, f: &mut fmt::Formatter<'_>) -> fmt::Result {
        write!(f, "{} at line {}", self.info, self.line)
    }
}

impl std::error::Error for ScanError {}

/// Insertion-ordered mapping in which a repeated key replaces the earlier value (hashlink::LinkedHashMap semantics).
#[derive(Clone, Debug, PartialEq, Default)]
pub struct Hash {
    items: Vec<(Yaml, Yaml)>,
}

impl Hash {
    pub fn new() -> Self {
        Self { items: Vec::new() }
    }
    pub fn insert(&mut self, k: Yaml, v: Yaml) -> Option<Yaml> {
        for it in self.items.iter_mut() {
            if it.0 == k {
                return Some(std::mem::replace(&mut it.1, v));
            }
        }
        self.items.push((k, v));
        None
    }
    pub fn get(&self, k: &Yaml) -> Option<&Yaml> {
        self.items.iter().find(|it| &it.0 == k).map(|it| &it.1)
    }
    pub fn contains_key(&self, k: &Yaml) -> bool {
        self.get(k).is_some()
    }
    pub fn len(&self) -> usize {
        self.items.len()
    }
    pub fn is_empty(&self) -> bool {
        self.items.is_empty()
    }
    pub fn iter(&self) -> impl Iterator<Item = (&Yaml, &Yaml)> {
        self.items.iter().map(|it| (&it.0, &it.1))
    }
    pub fn keys(&self) -> impl Iterator<Item = &Yaml> {
        self.items.iter().map(|it| &it.0)
    }
    pub fn values(&self) -> impl Iterator<Item = &Yaml> {
        self.items.iter().map(|it| &it.1)
    }
}

pub type Array = Vec<Yaml>;

/// A YAML node.
#[derive(Clone, Debug, PartialEq)]
pub enum Yaml {
    /// Float, kept as text.
    Real(String),
    Integer(i64),
    String(String),
    Boolean(bool),
    Array(Array),
    Hash(Hash),
    Alias(usize),
    Null,
    /// Returned for invalid accesses.
    BadValue,
}

static BAD_VALUE: Yaml = Yaml::BadValue;

fn parse_f64(v: &str) -> Option<f64> {
    match v {
        ".inf" | ".Inf" | ".INF" | "+.inf" | "+.Inf" | "+.INF" => Some(f64::INFINITY),
        "-.inf" | "-.Inf" | "-.INF" => Some(f64::NEG_INFINITY),
        ".nan" | "NaN" | ".NAN" => Some(f64::NAN),
        _ => v.parse::<f64>().ok(),
    }
}

impl Yaml {
    /// Type an untagged plain scalar.
    #[allow(clippy::should_implement_trait)]
    pub fn from_str(v: &str) -> Yaml {
        if let Some(number) = v.strip_prefix("0x") {
            if let Ok(i) = i64::from_str_radix(number, 16) {
                return Yaml::Integer(i);
            }
        } else if let Some(number) = v.strip_prefix("0o") {
            if let Ok(i) = i64::from_str_radix(number, 8) {
                return Yaml::Integer(i);
            }
        } else if let Some(number) = v.strip_prefix('+') {
            if let Ok(i) = number.parse::<i64>() {
                return Yaml::Integer(i);
            }
        }
        match v {
            "~" | "null" => Yaml::Null,
            "true" => Yaml::Boolean(true),
            "false" => Yaml::Boolean(false),
            _ => {
                if let Ok(integer) = v.parse::<i64>() {
                    Yaml::Integer(integer)
                } else if parse_f64(v).is_some() {
                    Yaml::Real(v.to_owned())
                } else {
                    Yaml::String(v.to_owned())
                }
            }
        }
    }

    pub fn as_f64(&self) -> Option<f64> {
        if let Yaml::Real(v) = self {
            parse_f64(v)
        } else {
            None
        }
    }
    pub fn into_f64(self) -> Option<f64> {
        self.as_f64()
    }
    pub fn as_i64(&self) -> Option<i64> {
        if let Yaml::Integer(v) = self {
            Some(*v)
        } else {
            None
        }
    }
    pub fn into_i64(self) -> Option<i64> {
        self.as_i64()
    }
    pub fn as_bool(&self) -> Option<bool> {
        if let Yaml::Boolean(v) = self {
            Some(*v)
        } else {
            None
        }
    }
    pub fn as_str(&self) -> Option<&str> {
        if let Yaml::String(v) = self {
            Some(v)
        } else {
            None
        }
    }
    pub fn as_hash(&self) -> Option<&Hash> {
        if let Yaml::Hash(v) = self {
            Some(v)
        } else {
            None
        }
    }
    pub fn as_vec(&self) -> Option<&Array> {
        if let Yaml::Array(v) = self {
            Some(v)
        } else {
            None
        }
    }
    pub fn is_null(&self) -> bool {
        matches!(self, Yaml::Null)
    }
    pub fn is_badvalue(&self) -> bool {
        matches!(self, Yaml::BadValue)
    }
    pub fn is_array(&self) -> bool {
        matches!(self, Yaml::Array(_))
    }
}

impl<'a> Index<&'a str> for Yaml {
    type Output = Yaml;
    fn index(&self, idx: &'a str) -> &Yaml {
        let key = Yaml::String(idx.to_owned());
        match self.as_hash() {
            Some(h) => h.get(&key).unwrap_or(&BAD_VALUE),
            None => &BAD_VALUE,
        }
    }
}

impl Index<usize> for Yaml {
    type Output = Yaml;
    fn index(&self, idx: usize) -> &Yaml {
        if let Some(v) = self.as_vec() {
            v.get(idx).unwrap_or(&BAD_VALUE)
        } else if let Some(v) = self.as_hash() {
            let key = Yaml::Integer(idx as i64);
            v.get(&key).unwrap_or(&BAD_VALUE)
        } else {
            &BAD_VALUE
        }
    }
}

// ------------------------------------------------------------------------------------------------ loader

#[derive(Clone, Debug)]
struct Line {
    /// Number of leading spaces.
    indent: usize,
    /// Content without indentation, trailing comment and trailing blanks (empty for blank / comment lines).
    text: String,
    /// The untouched line (needed for block scalars).
    raw: String,
    no: usize,
}

#[derive(Clone, Debug, PartialEq)]
enum Tag {
    None,
    /// `!!suffix` (core schema handle).
    Core(String),
    /// any other tag
    Other,
}

/// Loader entry point.
pub struct YamlLoader;

impl YamlLoader {
    /// Parse all documents of `source`.
    pub fn load_from_str(source: &str) -> Result<Vec<Yaml>, ScanError> {
        let mut p = Parser::new(source)?;
        match p.stream() {
            Ok(d) => Ok(d),
            Err(e) => Err(e),
        }
    }
}

fn unsupported<T>(line: usize, what: &str) -> Result<T, ScanError> {
    shim::note(format!("line {line}: {what}"));
    Err(ScanError::new(line, &format!("construct outside the subset of the yaml-rust2 stand-in: {what}")))
}

/// Cut a trailing comment (a `#` at the start or after a blank, outside quotes) and trailing blanks.
fn strip_comment(s: &str) -> &str {
    let b = s.as_bytes();
    let mut in_s = false;
    let mut in_d = false;
    let mut i = 0;
    while i < b.len() {
        let c = b[i];
        if in_d {
            if c == b'\\' {
                i += 1;
            } else if c == b'"' {
                in_d = false;
            }
        } else if in_s {
            if c == b'\'' {
                in_s = false;
            }
        } else if c == b'"' && (i == 0 || is_opener_context(b, i)) {
            in_d = true;
        } else if c == b'\'' && (i == 0 || is_opener_context(b, i)) {
            in_s = true;
        } else if c == b'#' && (i == 0 || b[i - 1] == b' ' || b[i - 1] == b'\t') {
            return s[..i].trim_end();
        }
        i += 1;
    }
    s.trim_end()
}

/// A quote opens a quoted scalar only where a node may start (after a blank or a flow indicator).
fn is_opener_context(b: &[u8], i: usize) -> bool {
    matches!(b[i - 1], b' ' | b'\t' | b'[' | b'{' | b',')
}

struct Parser {
    lines: Vec<Line>,
    i: usize,
}

impl Parser {
    fn new(source: &str) -> Result<Self, ScanError> {
        let source = source.strip_prefix('\u{feff}').unwrap_or(source);
        let mut lines = Vec::new();
        for (n, raw) in source.split('\n').enumerate() {
            let raw = raw.strip_suffix('\r').unwrap_or(raw);
            let indent = raw.len() - raw.trim_start_matches(' ').len();
            let body = &raw[indent..];
            let text = strip_comment(body);
            if !text.is_empty() && body.starts_with('\t') {
                return Err(ScanError::new(n + 1, "found character that cannot start any token (tab indentation)"));
            }
            lines.push(Line {
                indent,
                text: text.to_owned(),
                raw: raw.to_owned(),
                no: n + 1,
            });
        }
        Ok(Self { lines, i: 0 })
    }

    fn skip_blank(&mut self) {
        while self.i < self.lines.len() && self.lines[self.i].text.is_empty() {
            self.i += 1;
        }
    }

    fn cur(&mut self) -> Option<&Line> {
        self.skip_blank();
        self.lines.get(self.i)
    }

    fn is_doc_marker(l: &Line, m: &str) -> bool {
        l.indent == 0 && (l.text == m || l.text.starts_with(&format!("{m} ")))
    }

    fn stream(&mut self) -> Result<Vec<Yaml>, ScanError> {
        let mut docs = Vec::new();
        let mut first = true;
        loop {
            let l = match self.cur() {
                Some(l) => l.clone(),
                None => break,
            };
            if l.indent == 0 && l.text.starts_with('%') {
                return unsupported(l.no, "directive");
            }
            let mut explicit = false;
            if Self::is_doc_marker(&l, "---") {
                explicit = true;
                let rest = l.text[3..].trim_start().to_owned();
                if rest.is_empty() {
                    self.i += 1;
                } else {
                    // content on the marker line: treat it as a line of its own at a virtual indentation
                    let col = l.text.len() - rest.len();
                    self.lines[self.i].indent = col;
                    self.lines[self.i].text = rest;
                }
            } else if !first {
                return Err(ScanError::new(l.no, "did not find expected <document start>"));
            }
            first = false;
            // an explicit document may be empty
            let node = match self.cur() {
                None => {
                    if explicit {
                        Yaml::Null
                    } else {
                        break;
                    }
                }
                Some(l2) => {
                    let l2 = l2.clone();
                    if Self::is_doc_marker(&l2, "---") || Self::is_doc_marker(&l2, "...") {
                        Yaml::Null
                    } else {
                        self.block_node(-1)?
                    }
                }
            };
            docs.push(node);
            if let Some(l3) = self.cur() {
                let l3 = l3.clone();
                if Self::is_doc_marker(&l3, "...") {
                    if l3.text != "..." {
                        return Err(ScanError::new(l3.no, "content after document end marker"));
                    }
                    self.i += 1;
                }
            }
        }
        Ok(docs)
    }

    /// Parse the node starting at the current line; its indentation must exceed `parent`.
    fn block_node(&mut self, parent: isize) -> Result<Yaml, ScanError> {
        let l = match self.cur() {
            Some(l) => l.clone(),
            None => return Ok(Yaml::Null),
        };
        if (l.indent as isize) <= parent {
            return Err(ScanError::new(l.no, "bad indentation"));
        }
        if is_seq_entry(&l.text) {
            return self.block_seq(l.indent);
        }
        if l.text.starts_with("? ") || l.text == "?" {
            return unsupported(l.no, "complex mapping key");
        }
        if split_key(&l.text, l.no)?.is_some() {
            return self.block_map(l.indent);
        }
        // a scalar / flow node on its own line
        self.i += 1;
        let v = self.inline_value(&l.text, l.no, parent)?;
        Ok(v)
    }

    fn block_seq(&mut self, ind: usize) -> Result<Yaml, ScanError> {
        let mut out = Vec::new();
        loop {
            let l = match self.cur() {
                Some(l) => l.clone(),
                None => break,
            };
            if l.indent == 0 && (Self::is_doc_marker(&l, "---") || Self::is_doc_marker(&l, "...")) {
                break;
            }
            if l.indent < ind {
                break;
            }
            if l.indent > ind {
                return Err(ScanError::new(l.no, "bad indentation of a sequence entry"));
            }
            if !is_seq_entry(&l.text) {
                break;
            }
            let rest = l.text[1..].trim_start();
            if rest.is_empty() {
                self.i += 1;
                let item = match self.cur() {
                    Some(n) if n.indent > ind => self.block_node(ind as isize)?,
                    _ => Yaml::Null,
                };
                out.push(item);
            } else {
                let col = ind + (l.text.len() - rest.len());
                let rest = rest.to_owned();
                self.lines[self.i].indent = col;
                self.lines[self.i].text = rest;
                out.push(self.block_node(ind as isize)?);
            }
        }
        Ok(Yaml::Array(out))
    }

    fn block_map(&mut self, ind: usize) -> Result<Yaml, ScanError> {
        let mut out = Hash::new();
        loop {
            let l = match self.cur() {
                Some(l) => l.clone(),
                None => break,
            };
            if l.indent == 0 && (Self::is_doc_marker(&l, "---") || Self::is_doc_marker(&l, "...")) {
                break;
            }
            if l.indent < ind {
                break;
            }
            if l.indent > ind {
                return Err(ScanError::new(l.no, "bad indentation of a mapping entry"));
            }
            if l.text.starts_with("? ") || l.text == "?" {
                return unsupported(l.no, "complex mapping key");
            }
            let (key_src, rest) = match split_key(&l.text, l.no)? {
                Some(x) => x,
                None => {
                    if is_seq_entry(&l.text) {
                        // a sequence at the indentation of the mapping that is not a value: ends the mapping
                        break;
                    }
                    return Err(ScanError::new(l.no, "could not find expected ':'"));
                }
            };
            let key = self.scalar_or_flow(&key_src, l.no)?;
            self.i += 1;
            // properties of the value
            let (tag, rest, had_anchor) = take_props(&rest, l.no)?;
            let _ = had_anchor;
            let value = if rest.is_empty() {
                // value on the following lines (or empty)
                match self.cur() {
                    Some(n) if n.indent > ind && !(n.indent == 0) => {
                        let n = n.clone();
                        if Self::is_doc_marker(&n, "---") || Self::is_doc_marker(&n, "...") {
                            empty_scalar(&tag)
                        } else {
                            self.block_node(ind as isize)?
                        }
                    }
                    Some(n) if n.indent == ind && is_seq_entry(&n.text) => self.block_seq(ind)?,
                    _ => empty_scalar(&tag),
                }
            } else if rest.starts_with('|') || rest.starts_with('>') {
                Yaml::String(self.block_scalar(&rest, ind as isize, l.no)?)
            } else {
                let v = typed(&tag, self.scalar_or_flow_untyped(&rest, l.no)?);
                self.no_continuation(ind as isize, l.no)?;
                v
            };
            out.insert(key, value);
        }
        Ok(Yaml::Hash(out))
    }

    /// After a single-line scalar: a deeper-indented following line would continue it (multi-line scalar).
    fn no_continuation(&mut self, parent: isize, no: usize) -> Result<(), ScanError> {
        if let Some(n) = self.cur() {
            if (n.indent as isize) > parent && !(n.indent == 0 && (n.text.starts_with("---") || n.text.starts_with("..."))) {
                return unsupported(no, "multi-line plain / flow scalar");
            }
        }
        Ok(())
    }

    /// A node written on (the rest of) one line, with optional properties.
    fn inline_value(&mut self, s: &str, no: usize, parent: isize) -> Result<Yaml, ScanError> {
        let (tag, rest, _) = take_props(s, no)?;
        if rest.is_empty() {
            // properties alone on a line: the node follows
            return match self.cur() {
                Some(n) if (n.indent as isize) > parent => {
                    let v = self.block_node(parent)?;
                    Ok(v)
                }
                _ => Ok(empty_scalar(&tag)),
            };
        }
        if rest.starts_with('|') || rest.starts_with('>') {
            return Ok(Yaml::String(self.block_scalar(&rest, parent, no)?));
        }
        let v = typed(&tag, self.scalar_or_flow_untyped(&rest, no)?);
        self.no_continuation(parent, no)?;
        Ok(v)
    }

    fn scalar_or_flow(&mut self, s: &str, no: usize) -> Result<Yaml, ScanError> {
        let (tag, rest, _) = take_props(s, no)?;
        if rest.is_empty() {
            return Ok(empty_scalar(&tag));
        }
        Ok(typed(&tag, self.scalar_or_flow_untyped(&rest, no)?))
    }

    fn scalar_or_flow_untyped(&mut self, s: &str, no: usize) -> Result<Raw, ScanError> {
        let mut f = Flow {
            b: s.as_bytes(),
            s,
            p: 0,
            no,
        };
        let v = f.node(false)?;
        f.ws();
        if f.p != s.len() {
            return Err(ScanError::new(no, "unexpected characters after a scalar / flow collection"));
        }
        Ok(v)
    }

    /// Literal / folded block scalar whose header is `header` (`|`, `>`, with optional indicators).
    fn block_scalar(&mut self, header: &str, parent: isize, no: usize) -> Result<String, ScanError> {
        let folded = header.starts_with('>');
        let mut chomp = 'c';
        let mut explicit: Option<usize> = None;
        for c in header[1..].chars() {
            match c {
                '-' => chomp = '-',
                '+' => chomp = '+',
                '1'..='9' => explicit = Some(c as usize - '0' as usize),
                _ => return Err(ScanError::new(no, "bad block scalar header")),
            }
        }
        // gather raw lines
        let mut body: Vec<(usize, String)> = Vec::new(); // (indent, raw)
        let mut j = self.i;
        let mut content_indent: Option<usize> = explicit.map(|e| (parent.max(0) as usize) + e);
        while j < self.lines.len() {
            let raw = self.lines[j].raw.clone();
            let ind = raw.len() - raw.trim_start_matches(' ').len();
            let blank = raw.trim().is_empty();
            if blank {
                body.push((ind, raw));
                j += 1;
                continue;
            }
            if (ind as isize) <= parent {
                break;
            }
            if content_indent.is_none() {
                content_indent = Some(ind);
            }
            if ind < content_indent.unwrap() {
                break;
            }
            body.push((ind, raw));
            j += 1;
        }
        self.i = j;
        let ci = content_indent.unwrap_or(0);
        let mut lines: Vec<String> = body
            .into_iter()
            .map(|(_, raw)| if raw.len() >= ci { raw[ci..].to_owned() } else { String::new() })
            .collect();
        // trailing blank lines
        let mut trailing = 0;
        while lines.last().map_or(false, |l| l.is_empty()) {
            lines.pop();
            trailing += 1;
        }
        let mut text = String::new();
        if folded {
            // fold single line breaks between non-indented lines into spaces
            let mut k = 0;
            while k < lines.len() {
                text.push_str(&lines[k]);
                if k + 1 < lines.len() {
                    let a_more = lines[k].starts_with(' ');
                    let b_more = lines[k + 1].starts_with(' ');
                    if lines[k + 1].is_empty() {
                        // blank lines are kept as line breaks
                        let mut m = k + 1;
                        while m < lines.len() && lines[m].is_empty() {
                            text.push('\n');
                            m += 1;
                        }
                        k = m;
                        continue;
                    } else if a_more || b_more {
                        text.push('\n');
                    } else {
                        text.push(' ');
                    }
                }
                k += 1;
            }
        } else {
            text = lines.join("\n");
        }
        if !lines.is_empty() {
            match chomp {
                '-' => {}
                '+' => {
                    for _ in 0..=trailing {
                        text.push('\n');
                    }
                }
                _ => text.push('\n'),
            }
        } else if chomp == '+' {
            for _ in 0..trailing {
                text.push('\n');
            }
        }
        Ok(text)
    }
}

fn is_seq_entry(text: &str) -> bool {
    text == "-" || text.starts_with("- ")
}

/// Untyped scalar / collection.
enum Raw {
    Plain(String),
    Quoted(String),
    Node(Yaml),
}

fn empty_scalar(tag: &Tag) -> Yaml {
    // the parser emits the plain scalar "~" for an empty node
    typed(tag, Raw::Plain("~".to_owned()))
}

fn typed(tag: &Tag, raw: Raw) -> Yaml {
    match raw {
        Raw::Node(y) => y,
        Raw::Quoted(s) => Yaml::String(s),
        Raw::Plain(v) => match tag {
            Tag::None => Yaml::from_str(&v),
            Tag::Other => Yaml::String(v),
            Tag::Core(suffix) => match suffix.as_str() {
                "bool" => match v.parse::<bool>() {
                    Err(_) => Yaml::BadValue,
                    Ok(b) => Yaml::Boolean(b),
                },
                "int" => match v.parse::<i64>() {
                    Err(_) => Yaml::BadValue,
                    Ok(i) => Yaml::Integer(i),
                },
                "float" => match parse_f64(&v) {
                    Some(_) => Yaml::Real(v),
                    None => Yaml::BadValue,
                },
                "null" => match v.as_ref() {
                    "~" | "null" => Yaml::Null,
                    _ => Yaml::BadValue,
                },
                _ => Yaml::String(v),
            },
        },
    }
}

/// Strip leading node properties (tag, anchor) from `s`.
fn take_props(s: &str, no: usize) -> Result<(Tag, String, bool), ScanError> {
    let mut rest = s.trim_start();
    let mut tag = Tag::None;
    let mut anchor = false;
    loop {
        if rest.starts_with('!') {
            let end = rest.find(|c: char| c == ' ' || c == '\t').unwrap_or(rest.len());
            let t = &rest[..end];
            if t.starts_with("!<") {
                return unsupported(no, "verbatim tag");
            }
            tag = if let Some(suffix) = t.strip_prefix("!!") {
                Tag::Core(suffix.to_owned())
            } else {
                Tag::Other
            };
            rest = rest[end..].trim_start();
        } else if rest.starts_with('&') {
            let end = rest.find(|c: char| c == ' ' || c == '\t').unwrap_or(rest.len());
            anchor = true;
            rest = rest[end..].trim_start();
        } else if rest.starts_with('*') {
            return unsupported(no, "alias");
        } else {
            break;
        }
    }
    Ok((tag, rest.to_owned(), anchor))
}

/// If `text` is `key: rest` / `key:` return (key source, rest).
fn split_key(text: &str, no: usize) -> Result<Option<(String, String)>, ScanError> {
    let b = text.as_bytes();
    if b.is_empty() {
        return Ok(None);
    }
    // skip properties of the key
    let mut start = 0usize;
    loop {
        if start < b.len() && (b[start] == b'!' || b[start] == b'&') {
            let end = text[start..].find(' ').map(|e| start + e).unwrap_or(b.len());
            start = end;
            while start < b.len() && b[start] == b' ' {
                start += 1;
            }
        } else {
            break;
        }
    }
    if start >= b.len() {
        return Ok(None);
    }
    let mut i = start;
    if b[i] == b'"' || b[i] == b'\'' {
        let q = b[i];
        i += 1;
        loop {
            if i >= b.len() {
                return unsupported(no, "multi-line quoted scalar");
            }
            if q == b'"' && b[i] == b'\\' {
                i += 2;
                continue;
            }
            if b[i] == q {
                if q == b'\'' && i + 1 < b.len() && b[i + 1] == b'\'' {
                    i += 2;
                    continue;
                }
                i += 1;
                break;
            }
            i += 1;
        }
        let mut j = i;
        while j < b.len() && (b[j] == b' ' || b[j] == b'\t') {
            j += 1;
        }
        if j < b.len() && b[j] == b':' && (j + 1 == b.len() || b[j + 1] == b' ' || b[j + 1] == b'\t') {
            return Ok(Some((text[..i].to_owned(), text[j + 1..].trim().to_owned())));
        }
        return Ok(None);
    }
    if b[i] == b'[' || b[i] == b'{' {
        // flow collection: could be a key in full YAML; find the matching close and look for ':'
        let mut depth = 0i32;
        let mut j = i;
        let mut in_s = false;
        let mut in_d = false;
        while j < b.len() {
            let c = b[j];
            if in_d {
                if c == b'\\' {
                    j += 1;
                } else if c == b'"' {
                    in_d = false;
                }
            } else if in_s {
                if c == b'\'' {
                    in_s = false;
                }
            } else if c == b'"' {
                in_d = true;
            } else if c == b'\'' {
                in_s = true;
            } else if c == b'[' || c == b'{' {
                depth += 1;
            } else if c == b']' || c == b'}' {
                depth -= 1;
                if depth == 0 {
                    break;
                }
            }
            j += 1;
        }
        if depth != 0 {
            return unsupported(no, "multi-line flow collection");
        }
        let after = text[j + 1..].trim_start();
        if after.starts_with(':') {
            return unsupported(no, "flow collection as mapping key");
        }
        return Ok(None);
    }
    // plain key: first ": " or trailing ":"
    while i < b.len() {
        if b[i] == b':' && (i + 1 == b.len() || b[i + 1] == b' ' || b[i + 1] == b'\t') {
            if i == start {
                return unsupported(no, "empty mapping key");
            }
            return Ok(Some((text[..i].trim_end().to_owned(), text[i + 1..].trim().to_owned())));
        }
        i += 1;
    }
    Ok(None)
}

/// Single-line scanner for scalars and flow collections.
struct Flow<'a> {
    b: &'a [u8],
    s: &'a str,
    p: usize,
    no: usize,
}

impl<'a> Flow<'a> {
    fn ws(&mut self) {
        while self.p < self.b.len() && (self.b[self.p] == b' ' || self.b[self.p] == b'\t') {
            self.p += 1;
        }
    }

    fn node(&mut self, in_flow: bool) -> Result<Raw, ScanError> {
        self.ws();
        if self.p >= self.b.len() {
            return Ok(Raw::Plain("~".to_owned()));
        }
        match self.b[self.p] {
            b'"' => Ok(Raw::Quoted(self.double()?)),
            b'\'' => Ok(Raw::Quoted(self.single()?)),
            b'[' => Ok(Raw::Node(self.seq()?)),
            b'{' => Ok(Raw::Node(self.map()?)),
            b'*' => unsupported(self.no, "alias"),
            b'|' | b'>' if in_flow => Err(ScanError::new(self.no, "block scalar inside a flow collection")),
            b'@' | b'`' | b'%' => Err(ScanError::new(self.no, "found character that cannot start any token")),
            _ => Ok(Raw::Plain(self.plain(in_flow)?)),
        }
    }

    fn tagged_node(&mut self, in_flow: bool) -> Result<Yaml, ScanError> {
        self.ws();
        let mut tag = Tag::None;
        while self.p < self.b.len() && (self.b[self.p] == b'!' || self.b[self.p] == b'&') {
            let start = self.p;
            while self.p < self.b.len() && !matches!(self.b[self.p], b' ' | b'\t' | b',' | b']' | b'}') {
                self.p += 1;
            }
            let t = &self.s[start..self.p];
            if t.starts_with("!<") {
                return unsupported(self.no, "verbatim tag");
            }
            if let Some(suffix) = t.strip_prefix("!!") {
                tag = Tag::Core(suffix.to_owned());
            } else if t.starts_with('!') {
                tag = Tag::Other;
            }
            self.ws();
        }
        if self.p >= self.b.len() || (in_flow && matches!(self.b[self.p], b',' | b']' | b'}')) {
            return Ok(empty_scalar(&tag));
        }
        let raw = self.node(in_flow)?;
        Ok(typed(&tag, raw))
    }

    fn plain(&mut self, in_flow: bool) -> Result<String, ScanError> {
        let start = self.p;
        while self.p < self.b.len() {
            let c = self.b[self.p];
            if in_flow && matches!(c, b',' | b']' | b'}' | b'[' | b'{') {
                break;
            }
            if c == b':' && (self.p + 1 == self.b.len() || matches!(self.b[self.p + 1], b' ' | b'\t'))
                || (in_flow && c == b':' && self.p + 1 < self.b.len() && matches!(self.b[self.p + 1], b',' | b']' | b'}'))
            {
                if in_flow {
                    break;
                }
                return Err(ScanError::new(self.no, "mapping values are not allowed in this context"));
            }
            self.p += 1;
        }
        Ok(self.s[start..self.p].trim_end().to_owned())
    }

    fn single(&mut self) -> Result<String, ScanError> {
        self.p += 1;
        let mut out = Vec::new();
        loop {
            if self.p >= self.b.len() {
                return unsupported(self.no, "multi-line quoted scalar");
            }
            let c = self.b[self.p];
            if c == b'\'' {
                if self.p + 1 < self.b.len() && self.b[self.p + 1] == b'\'' {
                    out.push(b'\'');
                    self.p += 2;
                    continue;
                }
                self.p += 1;
                break;
            }
            out.push(c);
            self.p += 1;
        }
        String::from_utf8(out).map_err(|_| ScanError::new(self.no, "invalid utf-8"))
    }

    fn double(&mut self) -> Result<String, ScanError> {
        self.p += 1;
        let mut out = String::new();
        let mut chars = self.s[self.p..].char_indices();
        loop {
            let (off, c) = match chars.next() {
                Some(x) => x,
                None => return unsupported(self.no, "multi-line quoted scalar"),
            };
            match c {
                '"' => {
                    self.p += off + 1;
                    return Ok(out);
                }
                '\\' => {
                    let (_, e) = match chars.next() {
                        Some(x) => x,
                        None => return unsupported(self.no, "multi-line quoted scalar"),
                    };
                    let hex = |chars: &mut std::str::CharIndices<'_>, n: usize, no: usize| -> Result<char, ScanError> {
                        let mut v = 0u32;
                        for _ in 0..n {
                            let (_, h) = chars.next().ok_or_else(|| ScanError::new(no, "truncated escape"))?;
                            v = v * 16 + h.to_digit(16).ok_or_else(|| ScanError::new(no, "bad hex escape"))?;
                        }
                        char::from_u32(v).ok_or_else(|| ScanError::new(no, "bad unicode escape"))
                    };
                    match e {
                        '0' => out.push('\0'),
                        'a' => out.push('\x07'),
                        'b' => out.push('\x08'),
                        't' | '\t' => out.push('\t'),
                        'n' => out.push('\n'),
                        'v' => out.push('\x0b'),
                        'f' => out.push('\x0c'),
                        'r' => out.push('\r'),
                        'e' => out.push('\x1b'),
                        ' ' => out.push(' '),
                        '"' => out.push('"'),
                        '/' => out.push('/'),
                        '\\' => out.push('\\'),
                        'N' => out.push('\u{85}'),
                        '_' => out.push('\u{a0}'),
                        'L' => out.push('\u{2028}'),
                        'P' => out.push('\u{2029}'),
                        'x' => out.push(hex(&mut chars, 2, self.no)?),
                        'u' => out.push(hex(&mut chars, 4, self.no)?),
                        'U' => out.push(hex(&mut chars, 8, self.no)?),
                        _ => return Err(ScanError::new(self.no, "unknown escape character")),
                    }
                }
                other => out.push(other),
            }
        }
    }

    fn seq(&mut self) -> Result<Yaml, ScanError> {
        self.p += 1;
        let mut out = Vec::new();
        loop {
            self.ws();
            if self.p >= self.b.len() {
                return unsupported(self.no, "multi-line flow collection");
            }
            if self.b[self.p] == b']' {
                self.p += 1;
                return Ok(Yaml::Array(out));
            }
            let v = self.tagged_node(true)?;
            self.ws();
            // single-pair mapping inside a flow sequence: [a: b]
            if self.p < self.b.len() && self.b[self.p] == b':' {
                self.p += 1;
                let val = self.tagged_node(true)?;
                let mut h = Hash::new();
                h.insert(v, val);
                out.push(Yaml::Hash(h));
            } else {
                out.push(v);
            }
            self.ws();
            if self.p >= self.b.len() {
                return unsupported(self.no, "multi-line flow collection");
            }
            match self.b[self.p] {
                b',' => self.p += 1,
                b']' => {}
                _ => return Err(ScanError::new(self.no, "did not find expected ',' or ']'")),
            }
        }
    }

    fn map(&mut self) -> Result<Yaml, ScanError> {
        self.p += 1;
        let mut out = Hash::new();
        loop {
            self.ws();
            if self.p >= self.b.len() {
                return unsupported(self.no, "multi-line flow collection");
            }
            if self.b[self.p] == b'}' {
                self.p += 1;
                return Ok(Yaml::Hash(out));
            }
            if self.b[self.p] == b'?' {
                return unsupported(self.no, "complex mapping key");
            }
            let k = self.tagged_node(true)?;
            self.ws();
            let v = if self.p < self.b.len() && self.b[self.p] == b':' {
                self.p += 1;
                self.tagged_node(true)?
            } else {
                Yaml::Null
            };
            out.insert(k, v);
            self.ws();
            if self.p >= self.b.len() {
                return unsupported(self.no, "multi-line flow collection");
            }
            match self.b[self.p] {
                b',' => self.p += 1,
                b'}' => {}
                _ => return Err(ScanError::new(self.no, "did not find expected ',' or '}'")),
            }
        }
    }
}

//! Self-contained subset of `ndarray-npy`, sufficient for `crates/dekoder`: `NpzReader::{new, by_name}`.
//!
//! * ZIP container: end-of-central-directory record (with the zip64 variant), central directory, local headers,
//!   methods 0 (stored) and 8 (deflate, through `miniz_oxide`), CRC-32 verified - the behaviour of the `zip` crate the
//!   real `ndarray-npy` delegates to.  Member names are matched exactly (ndarray-npy 0.8 semantics).
//! * NPY payload: format versions 1.0, 2.0 and 3.0; header dictionary with exactly the keys `descr`, `fortran_order`,
//!   `shape`; `descr` must be `<f8` or `>f8` (the two descriptors the real crate accepts for `f64`); the payload must
//!   hold exactly `prod(shape)` elements; the number of axes must be 4.  Fortran-ordered payloads are returned as the
//!   same logical array.
//!
//! Features this stand-in does not implement (encryption, other compression methods, multi-disk archives, archives with
//! leading junk) are recorded in [`shim::notes`] so that the harness reports "not decidable" instead of a verdict.
//! Part of the trusted base of check C54.

#![allow(clippy::all)]

use std::fmt;
use std::io::{Read, Seek, SeekFrom};

pub mod shim {
    use std::sync::Mutex;

    static NOTES: Mutex<Vec<String>> = Mutex::new(Vec::new());

    /// Record a feature the stand-in does not support.
    pub fn note(s: String) {
        NOTES.lock().unwrap().push(s);
    }

    /// Unsupported features met so far in this process.
    pub fn notes() -> Vec<String> {
        NOTES.lock().unwrap().clone()
    }
}

/// Errors reading an `.npy` payload.
#[derive(Debug)]
pub enum ReadNpyError {
    Io(std::io::Error),
    ParseHeader(String),
    LengthOverflow,
    WrongNdim(Option<usize>, usize),
    WrongDescriptor(String),
    MissingData,
    ExtraBytes(usize),
}

/// Errors reading an `.npz` archive.
#[derive(Debug)]
pub enum ReadNpzError {
    Zip(String),
    Npy(ReadNpyError),
}

impl fmt::Display for ReadNpyError {
    fn fmt(&self, f: &mut fmt::Formatter<'_>) -> fmt::Result {
        write!(f, "{:?}", self)
    }
}

impl fmt::Display for ReadNpzError {
    fn fmt(&self, f: &mut fmt::Formatter<'_>) -> fmt::Result {
        write!(f, "{:?}", self)
    }
}

impl std::error::Error for ReadNpyError {}
impl std::error::Error for ReadNpzError {}

impl From<ReadNpyError> for ReadNpzError {
    fn from(e: ReadNpyError) -> Self {
        ReadNpzError::Npy(e)
    }
}

/// CRC-32 (IEEE 802.3, reflected, as used by ZIP).
pub fn crc32(data: &[u8]) -> u32 {
    let mut table = [0u32; 256];
    for i in 0..256u32 {
        let mut c = i;
        for _ in 0..8 {
            c = if c & 1 != 0 { 0xEDB8_8320 ^ (c >> 1) } else { c >> 1 };
        }
        table[i as usize] = c;
    }
    let mut c = 0xFFFF_FFFFu32;
    for &b in data {
        c = table[((c ^ b as u32) & 0xFF) as usize] ^ (c >> 8);
    }
    c ^ 0xFFFF_FFFF
}

#[derive(Debug, Clone)]
struct Entry {
    name: String,
    flags: u16,
    method: u16,
    crc: u32,
    csize: u64,
    usize_: u64,
    offset: u64,
}

fn u16le(b: &[u8], p: usize) -> u16 {
    u16::from_le_bytes([b[p], b[p + 1]])
}

fn u32le(b: &[u8], p: usize) -> u32 {
    u32::from_le_bytes([b[p], b[p + 1], b[p + 2], b[p + 3]])
}

fn u64le(b: &[u8], p: usize) -> u64 {
    let mut a = [0u8; 8];
    a.copy_from_slice(&b[p..p + 8]);
    u64::from_le_bytes(a)
}

fn zip_err<T>(s: &str) -> Result<T, ReadNpzError> {
    Err(ReadNpzError::Zip(s.to_owned()))
}

fn parse_directory(buf: &[u8]) -> Result<Vec<Entry>, ReadNpzError> {
    const EOCD: u32 = 0x0605_4b50;
    if buf.len() < 22 {
        return zip_err("invalid Zip archive: too short");
    }
    // locate the end-of-central-directory record (last one whose comment length fits)
    let mut pos = None;
    let lowest = buf.len().saturating_sub(22 + 65535);
    let mut p = buf.len() - 22;
    loop {
        if u32le(buf, p) == EOCD && p + 22 + u16le(buf, p + 20) as usize <= buf.len() {
            pos = Some(p);
            break;
        }
        if p == lowest {
            break;
        }
        p -= 1;
    }
    let p = match pos {
        Some(p) => p,
        None => return zip_err("invalid Zip archive: could not find central directory end"),
    };
    let disk = u16le(buf, p + 4);
    let cd_disk = u16le(buf, p + 6);
    let mut n_here = u16le(buf, p + 8) as u64;
    let mut n_total = u16le(buf, p + 10) as u64;
    let mut cd_size = u32le(buf, p + 12) as u64;
    let mut cd_off = u32le(buf, p + 16) as u64;
    if n_total == 0xFFFF || cd_off == 0xFFFF_FFFF || cd_size == 0xFFFF_FFFF || n_here == 0xFFFF {
        // zip64
        if p < 20 || u32le(buf, p - 20) != 0x0706_4b50 {
            return zip_err("invalid Zip archive: zip64 locator missing");
        }
        let z = u64le(buf, p - 20 + 8) as usize;
        if z + 56 > buf.len() || u32le(buf, z) != 0x0606_4b50 {
            return zip_err("invalid Zip archive: zip64 end of central directory missing");
        }
        n_here = u64le(buf, z + 24);
        n_total = u64le(buf, z + 32);
        cd_size = u64le(buf, z + 40);
        cd_off = u64le(buf, z + 48);
    }
    if disk != cd_disk || n_here != n_total {
        shim::note("multi-disk zip archive".to_owned());
        return zip_err("unsupported Zip archive: multi-disk");
    }
    if cd_off.checked_add(cd_size).map_or(true, |e| e > p as u64) {
        return zip_err("invalid Zip archive: central directory out of range");
    }
    let mut entries = Vec::new();
    let mut q = cd_off as usize;
    for _ in 0..n_total {
        if q + 46 > buf.len() || u32le(buf, q) != 0x0201_4b50 {
            // the zip crate copes with archives that have leading junk by shifting all offsets; not implemented here
            shim::note("central directory header not at the recorded offset (archive with leading data?)".to_owned());
            return zip_err("invalid Zip archive: invalid central directory header");
        }
        let flags = u16le(buf, q + 8);
        let method = u16le(buf, q + 10);
        let crc = u32le(buf, q + 16);
        let mut csize = u32le(buf, q + 20) as u64;
        let mut usize_ = u32le(buf, q + 24) as u64;
        let nlen = u16le(buf, q + 28) as usize;
        let xlen = u16le(buf, q + 30) as usize;
        let clen = u16le(buf, q + 32) as usize;
        let mut offset = u32le(buf, q + 42) as u64;
        if q + 46 + nlen + xlen + clen > buf.len() {
            return zip_err("invalid Zip archive: truncated central directory");
        }
        let name_raw = &buf[q + 46..q + 46 + nlen];
        let name = if flags & 0x0800 != 0 {
            String::from_utf8_lossy(name_raw).into_owned()
        } else {
            // CP437 in general; numpy member names are ASCII
            if !name_raw.is_ascii() {
                shim::note("non-ASCII CP437 member name".to_owned());
            }
            name_raw.iter().map(|&b| b as char).collect()
        };
        // zip64 extended information
        let extra = &buf[q + 46 + nlen..q + 46 + nlen + xlen];
        let mut x = 0usize;
        while x + 4 <= extra.len() {
            let id = u16le(extra, x);
            let sz = u16le(extra, x + 2) as usize;
            if x + 4 + sz > extra.len() {
                break;
            }
            if id == 0x0001 {
                let mut y = x + 4;
                let end = x + 4 + sz;
                if usize_ == 0xFFFF_FFFF && y + 8 <= end {
                    usize_ = u64le(extra, y);
                    y += 8;
                }
                if csize == 0xFFFF_FFFF && y + 8 <= end {
                    csize = u64le(extra, y);
                    y += 8;
                }
                if offset == 0xFFFF_FFFF && y + 8 <= end {
                    offset = u64le(extra, y);
                }
            }
            x += 4 + sz;
        }
        entries.push(Entry {
            name,
            flags,
            method,
            crc,
            csize,
            usize_,
            offset,
        });
        q += 46 + nlen + xlen + clen;
    }
    Ok(entries)
}

fn read_member(buf: &[u8], e: &Entry) -> Result<Vec<u8>, ReadNpzError> {
    if e.flags & 0x0001 != 0 {
        shim::note(format!("encrypted member {}", e.name));
        return zip_err("unsupported Zip archive: encrypted member");
    }
    let o = e.offset as usize;
    if o + 30 > buf.len() || u32le(buf, o) != 0x0403_4b50 {
        return zip_err("invalid Zip archive: invalid local file header");
    }
    let nlen = u16le(buf, o + 26) as usize;
    let xlen = u16le(buf, o + 28) as usize;
    let start = o + 30 + nlen + xlen;
    let end = start.checked_add(e.csize as usize).filter(|&x| x <= buf.len());
    let end = match end {
        Some(x) => x,
        None => return zip_err("invalid Zip archive: member data out of range"),
    };
    let raw = &buf[start..end];
    let data = match e.method {
        0 => raw.to_vec(),
        8 => match miniz_oxide::inflate::decompress_to_vec(raw) {
            Ok(d) => d,
            Err(err) => return Err(ReadNpzError::Npy(ReadNpyError::Io(std::io::Error::new(
                std::io::ErrorKind::InvalidData,
                format!("corrupt deflate stream: {err:?}"),
            )))),
        },
        m => {
            shim::note(format!("zip compression method {m}"));
            return zip_err("unsupported Zip archive: compression method");
        }
    };
    if data.len() as u64 != e.usize_ && e.method == 0 {
        return zip_err("invalid Zip archive: stored size mismatch");
    }
    if crc32(&data) != e.crc {
        return Err(ReadNpzError::Npy(ReadNpyError::Io(std::io::Error::new(
            std::io::ErrorKind::Other,
            "Invalid checksum",
        ))));
    }
    Ok(data)
}

/// Parsed `.npy` header.
#[derive(Debug, Clone, PartialEq)]
pub struct NpyHeader {
    pub descr: String,
    pub fortran_order: bool,
    pub shape: Vec<usize>,
    /// Offset of the payload.
    pub data_start: usize,
}

/// Parse magic string, version, header length and the header dictionary.
pub fn parse_npy_header(b: &[u8]) -> Result<NpyHeader, ReadNpyError> {
    let bad = |s: &str| ReadNpyError::ParseHeader(s.to_owned());
    if b.len() < 10 || &b[..6] != b"\x93NUMPY" {
        return Err(bad("magic string not found"));
    }
    let (major, minor) = (b[6], b[7]);
    let (hlen, hstart) = match (major, minor) {
        (1, 0) => (u16le(b, 8) as usize, 10usize),
        (2, 0) | (3, 0) => {
            if b.len() < 12 {
                return Err(bad("truncated header length"));
            }
            (u32le(b, 8) as usize, 12usize)
        }
        _ => return Err(bad("unsupported .npy format version")),
    };
    if hstart + hlen > b.len() {
        return Err(bad("truncated header"));
    }
    let text = std::str::from_utf8(&b[hstart..hstart + hlen]).map_err(|_| bad("header is not utf-8"))?;
    if major < 3 && !text.is_ascii() {
        return Err(bad("non-ascii header in format version < 3"));
    }
    let mut t = Tok {
        s: text.as_bytes(),
        p: 0,
    };
    t.ws();
    t.expect(b'{')?;
    let mut descr = None;
    let mut fortran = None;
    let mut shape = None;
    loop {
        t.ws();
        if t.peek() == Some(b'}') {
            t.p += 1;
            break;
        }
        let key = t.string()?;
        t.ws();
        t.expect(b':')?;
        t.ws();
        match key.as_str() {
            "descr" => {
                if t.peek() == Some(b'\'') || t.peek() == Some(b'"') {
                    descr = Some(t.string()?);
                } else {
                    // structured dtype (a list): no primitive element type accepts it
                    let rest = String::from_utf8_lossy(&t.s[t.p..]).into_owned();
                    return Err(ReadNpyError::WrongDescriptor(rest));
                }
            }
            "fortran_order" => fortran = Some(t.boolean()?),
            "shape" => shape = Some(t.tuple()?),
            other => {
                return Err(bad(&format!("unknown key {other}")));
            }
        }
        t.ws();
        match t.peek() {
            Some(b',') => t.p += 1,
            Some(b'}') => {}
            _ => return Err(bad("expected ',' or '}' in header dictionary")),
        }
    }
    t.ws();
    if t.p != t.s.len() {
        return Err(bad("trailing characters after the header dictionary"));
    }
    Ok(NpyHeader {
        descr: descr.ok_or_else(|| bad("missing key descr"))?,
        fortran_order: fortran.ok_or_else(|| bad("missing key fortran_order"))?,
        shape: shape.ok_or_else(|| bad("missing key shape"))?,
        data_start: hstart + hlen,
    })
}

struct Tok<'a> {
    s: &'a [u8],
    p: usize,
}

impl<'a> Tok<'a> {
    fn peek(&self) -> Option<u8> {
        self.s.get(self.p).copied()
    }
    fn ws(&mut self) {
        while matches!(self.peek(), Some(b' ' | b'\t' | b'\n' | b'\r' | 0x0c)) {
            self.p += 1;
        }
    }
    fn expect(&mut self, c: u8) -> Result<(), ReadNpyError> {
        if self.peek() == Some(c) {
            self.p += 1;
            Ok(())
        } else {
            Err(ReadNpyError::ParseHeader(format!("expected '{}' at offset {}", c as char, self.p)))
        }
    }
    fn string(&mut self) -> Result<String, ReadNpyError> {
        let q = match self.peek() {
            Some(q @ (b'\'' | b'"')) => q,
            _ => return Err(ReadNpyError::ParseHeader(format!("expected a string at offset {}", self.p))),
        };
        self.p += 1;
        let start = self.p;
        while let Some(c) = self.peek() {
            if c == b'\\' {
                return Err(ReadNpyError::ParseHeader("escape sequences in header strings are not supported".to_owned()));
            }
            if c == q {
                let out = String::from_utf8_lossy(&self.s[start..self.p]).into_owned();
                self.p += 1;
                return Ok(out);
            }
            self.p += 1;
        }
        Err(ReadNpyError::ParseHeader("unterminated string".to_owned()))
    }
    fn boolean(&mut self) -> Result<bool, ReadNpyError> {
        if self.s[self.p..].starts_with(b"True") {
            self.p += 4;
            Ok(true)
        } else if self.s[self.p..].starts_with(b"False") {
            self.p += 5;
            Ok(false)
        } else {
            Err(ReadNpyError::ParseHeader(format!("expected True/False at offset {}", self.p)))
        }
    }
    fn tuple(&mut self) -> Result<Vec<usize>, ReadNpyError> {
        let close = match self.peek() {
            Some(b'(') => b')',
            Some(b'[') => b']',
            _ => return Err(ReadNpyError::ParseHeader(format!("expected a tuple at offset {}", self.p))),
        };
        self.p += 1;
        let mut out = Vec::new();
        loop {
            self.ws();
            if self.peek() == Some(close) {
                self.p += 1;
                return Ok(out);
            }
            let start = self.p;
            while matches!(self.peek(), Some(b'0'..=b'9')) {
                self.p += 1;
            }
            if start == self.p {
                return Err(ReadNpyError::ParseHeader(format!("expected an integer at offset {}", self.p)));
            }
            let n: usize = std::str::from_utf8(&self.s[start..self.p])
                .unwrap()
                .parse()
                .map_err(|_| ReadNpyError::LengthOverflow)?;
            if self.peek() == Some(b'L') {
                self.p += 1;
            }
            out.push(n);
            self.ws();
            match self.peek() {
                Some(b',') => self.p += 1,
                Some(c) if c == close => {}
                _ => return Err(ReadNpyError::ParseHeader(format!("expected ',' or ')' at offset {}", self.p))),
            }
        }
    }
}

/// Read a whole `.npy` byte string as `f64` elements in logical row-major order, plus the shape.
pub fn read_npy_f64(b: &[u8]) -> Result<(Vec<usize>, Vec<f64>), ReadNpyError> {
    let h = parse_npy_header(b)?;
    let big = match h.descr.as_str() {
        "<f8" => false,
        ">f8" => true,
        other => return Err(ReadNpyError::WrongDescriptor(other.to_owned())),
    };
    let mut n: usize = 1;
    for &s in &h.shape {
        n = n.checked_mul(s).ok_or(ReadNpyError::LengthOverflow)?;
    }
    let nbytes = n.checked_mul(8).ok_or(ReadNpyError::LengthOverflow)?;
    let payload = &b[h.data_start..];
    if payload.len() < nbytes {
        return Err(ReadNpyError::MissingData);
    }
    if payload.len() > nbytes {
        return Err(ReadNpyError::ExtraBytes(payload.len() - nbytes));
    }
    let mut flat = Vec::with_capacity(n);
    for i in 0..n {
        let mut a = [0u8; 8];
        a.copy_from_slice(&payload[8 * i..8 * i + 8]);
        flat.push(if big { f64::from_be_bytes(a) } else { f64::from_le_bytes(a) });
    }
    if h.fortran_order && h.shape.len() > 1 && n > 0 {
        // element [i0, i1, ...] sits at i0 + s0*(i1 + s1*(...)) in the payload; emit row-major
        let nd = h.shape.len();
        let mut out = Vec::with_capacity(n);
        let mut idx = vec![0usize; nd];
        for _ in 0..n {
            let mut off = 0usize;
            let mut stride = 1usize;
            for ax in 0..nd {
                off += idx[ax] * stride;
                stride *= h.shape[ax];
            }
            out.push(flat[off]);
            // increment row-major index
            for ax in (0..nd).rev() {
                idx[ax] += 1;
                if idx[ax] < h.shape[ax] {
                    break;
                }
                idx[ax] = 0;
            }
        }
        flat = out;
    }
    Ok((h.shape, flat))
}

/// Array types `NpzReader::by_name` can produce.
pub trait FromNpy: Sized {
    fn from_npy(bytes: &[u8]) -> Result<Self, ReadNpyError>;
}

impl FromNpy for ndarray::Array4<f64> {
    fn from_npy(bytes: &[u8]) -> Result<Self, ReadNpyError> {
        let (shape, flat) = read_npy_f64(bytes)?;
        if shape.len() != 4 {
            return Err(ReadNpyError::WrongNdim(Some(4), shape.len()));
        }
        ndarray::Array4::from_shape_vec((shape[0], shape[1], shape[2], shape[3]), flat)
            .map_err(|e| ReadNpyError::ParseHeader(e.to_string()))
    }
}

/// Reader of `.npz` archives.
pub struct NpzReader<R: Read + Seek> {
    #[allow(dead_code)]
    reader: R,
    buf: Vec<u8>,
    entries: Vec<Entry>,
}

impl<R: Read + Seek> NpzReader<R> {
    /// Open an archive (reads the central directory).
    pub fn new(mut reader: R) -> Result<Self, ReadNpzError> {
        let mut buf = Vec::new();
        reader
            .seek(SeekFrom::Start(0))
            .and_then(|_| reader.read_to_end(&mut buf))
            .map_err(|e| ReadNpzError::Zip(format!("io: {e}")))?;
        let entries = parse_directory(&buf)?;
        Ok(Self { reader, buf, entries })
    }

    /// Whether the archive has no members.
    pub fn is_empty(&self) -> bool {
        self.entries.is_empty()
    }

    /// Number of members.
    pub fn len(&self) -> usize {
        self.entries.len()
    }

    /// Member names.
    pub fn names(&mut self) -> Result<Vec<String>, ReadNpzError> {
        Ok(self.entries.iter().map(|e| e.name.clone()).collect())
    }

    /// Read the member called exactly `name`.
    pub fn by_name<T: FromNpy>(&mut self, name: &str) -> Result<T, ReadNpzError> {
        // the zip crate keeps a name -> index map in which a later duplicate replaces an earlier one
        let e = match self.entries.iter().rev().find(|e| e.name == name) {
            Some(e) => e.clone(),
            None => return zip_err("specified file not found in archive"),
        };
        let data = read_member(&self.buf, &e)?;
        Ok(T::from_npy(&data)?)
    }

    /// Read the `index`-th member.
    pub fn by_index<T: FromNpy>(&mut self, index: usize) -> Result<T, ReadNpzError> {
        let e = match self.entries.get(index) {
            Some(e) => e.clone(),
            None => return zip_err("specified file not found in archive"),
        };
        let data = read_member(&self.buf, &e)?;
        Ok(T::from_npy(&data)?)
    }
}
